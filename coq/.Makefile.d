Base/Bits.vo Base/Bits.glob Base/Bits.v.beautified Base/Bits.required_vo: Base/Bits.v 
Base/Bits.vio: Base/Bits.v 
Base/Bits.vos Base/Bits.vok Base/Bits.required_vos: Base/Bits.v 
Base/FileRank.vo Base/FileRank.glob Base/FileRank.v.beautified Base/FileRank.required_vo: Base/FileRank.v Base/Geom.vo
Base/FileRank.vio: Base/FileRank.v Base/Geom.vio
Base/FileRank.vos Base/FileRank.vok Base/FileRank.required_vos: Base/FileRank.v Base/Geom.vos
Base/Geom.vo Base/Geom.glob Base/Geom.v.beautified Base/Geom.required_vo: Base/Geom.v Base/Bits.vo
Base/Geom.vio: Base/Geom.v Base/Bits.vio
Base/Geom.vos Base/Geom.vok Base/Geom.required_vos: Base/Geom.v Base/Bits.vos
Base/NIter.vo Base/NIter.glob Base/NIter.v.beautified Base/NIter.required_vo: Base/NIter.v 
Base/NIter.vio: Base/NIter.v 
Base/NIter.vos Base/NIter.vok Base/NIter.required_vos: Base/NIter.v 
Chess/Fen.vo Chess/Fen.glob Chess/Fen.v.beautified Chess/Fen.required_vo: Chess/Fen.v Chess/Rules.vo
Chess/Fen.vio: Chess/Fen.v Chess/Rules.vio
Chess/Fen.vos Chess/Fen.vok Chess/Fen.required_vos: Chess/Fen.v Chess/Rules.vos
Chess/FenPlacement.vo Chess/FenPlacement.glob Chess/FenPlacement.v.beautified Chess/FenPlacement.required_vo: Chess/FenPlacement.v Chess/Rules.vo Chess/Fen.vo Chess/TextProofs.vo Base/NIter.vo
Chess/FenPlacement.vio: Chess/FenPlacement.v Chess/Rules.vio Chess/Fen.vio Chess/TextProofs.vio Base/NIter.vio
Chess/FenPlacement.vos Chess/FenPlacement.vok Chess/FenPlacement.required_vos: Chess/FenPlacement.v Chess/Rules.vos Chess/Fen.vos Chess/TextProofs.vos Base/NIter.vos
Chess/FenProofs.vo Chess/FenProofs.glob Chess/FenProofs.v.beautified Chess/FenProofs.required_vo: Chess/FenProofs.v Chess/Rules.vo Chess/Fen.vo Chess/TextProofs.vo Chess/FenPlacement.vo Base/NIter.vo
Chess/FenProofs.vio: Chess/FenProofs.v Chess/Rules.vio Chess/Fen.vio Chess/TextProofs.vio Chess/FenPlacement.vio Base/NIter.vio
Chess/FenProofs.vos Chess/FenProofs.vok Chess/FenProofs.required_vos: Chess/FenProofs.v Chess/Rules.vos Chess/Fen.vos Chess/TextProofs.vos Chess/FenPlacement.vos Base/NIter.vos
Chess/GameInv.vo Chess/GameInv.glob Chess/GameInv.v.beautified Chess/GameInv.required_vo: Chess/GameInv.v Chess/Rules.vo Chess/RulesFacts.vo Chess/ValidStep.vo Chess/ValidStepEp.vo Base/Geom.vo Base/FileRank.vo Base/Bits.vo
Chess/GameInv.vio: Chess/GameInv.v Chess/Rules.vio Chess/RulesFacts.vio Chess/ValidStep.vio Chess/ValidStepEp.vio Base/Geom.vio Base/FileRank.vio Base/Bits.vio
Chess/GameInv.vos Chess/GameInv.vok Chess/GameInv.required_vos: Chess/GameInv.v Chess/Rules.vos Chess/RulesFacts.vos Chess/ValidStep.vos Chess/ValidStepEp.vos Base/Geom.vos Base/FileRank.vos Base/Bits.vos
Chess/History.vo Chess/History.glob Chess/History.v.beautified Chess/History.required_vo: Chess/History.v Chess/Rules.vo
Chess/History.vio: Chess/History.v Chess/Rules.vio
Chess/History.vos Chess/History.vok Chess/History.required_vos: Chess/History.v Chess/Rules.vos
Chess/HistoryKeys.vo Chess/HistoryKeys.glob Chess/HistoryKeys.v.beautified Chess/HistoryKeys.required_vo: Chess/HistoryKeys.v Chess/Rules.vo Chess/History.vo
Chess/HistoryKeys.vio: Chess/HistoryKeys.v Chess/Rules.vio Chess/History.vio
Chess/HistoryKeys.vos Chess/HistoryKeys.vok Chess/HistoryKeys.required_vos: Chess/HistoryKeys.v Chess/Rules.vos Chess/History.vos
Chess/Rules.vo Chess/Rules.glob Chess/Rules.v.beautified Chess/Rules.required_vo: Chess/Rules.v Base/Geom.vo
Chess/Rules.vio: Chess/Rules.v Base/Geom.vio
Chess/Rules.vos Chess/Rules.vok Chess/Rules.required_vos: Chess/Rules.v Base/Geom.vos
Chess/RulesFacts.vo Chess/RulesFacts.glob Chess/RulesFacts.v.beautified Chess/RulesFacts.required_vo: Chess/RulesFacts.v Chess/Rules.vo Base/FileRank.vo
Chess/RulesFacts.vio: Chess/RulesFacts.v Chess/Rules.vio Base/FileRank.vio
Chess/RulesFacts.vos Chess/RulesFacts.vok Chess/RulesFacts.required_vos: Chess/RulesFacts.v Chess/Rules.vos Base/FileRank.vos
Chess/San.vo Chess/San.glob Chess/San.v.beautified Chess/San.required_vo: Chess/San.v Chess/Rules.vo Chess/Fen.vo
Chess/San.vio: Chess/San.v Chess/Rules.vio Chess/Fen.vio
Chess/San.vos Chess/San.vok Chess/San.required_vos: Chess/San.v Chess/Rules.vos Chess/Fen.vos
Chess/SanProofs.vo Chess/SanProofs.glob Chess/SanProofs.v.beautified Chess/SanProofs.required_vo: Chess/SanProofs.v Chess/Rules.vo Chess/RulesFacts.vo Chess/Fen.vo Chess/TextProofs.vo Chess/FenPlacement.vo Chess/San.vo Chess/SanSweep.vo Base/Geom.vo Base/FileRank.vo Base/NIter.vo
Chess/SanProofs.vio: Chess/SanProofs.v Chess/Rules.vio Chess/RulesFacts.vio Chess/Fen.vio Chess/TextProofs.vio Chess/FenPlacement.vio Chess/San.vio Chess/SanSweep.vio Base/Geom.vio Base/FileRank.vio Base/NIter.vio
Chess/SanProofs.vos Chess/SanProofs.vok Chess/SanProofs.required_vos: Chess/SanProofs.v Chess/Rules.vos Chess/RulesFacts.vos Chess/Fen.vos Chess/TextProofs.vos Chess/FenPlacement.vos Chess/San.vos Chess/SanSweep.vos Base/Geom.vos Base/FileRank.vos Base/NIter.vos
Chess/SanSweep.vo Chess/SanSweep.glob Chess/SanSweep.v.beautified Chess/SanSweep.required_vo: Chess/SanSweep.v Chess/Rules.vo Chess/RulesFacts.vo Chess/Fen.vo Chess/TextProofs.vo Chess/San.vo Base/Geom.vo Base/FileRank.vo Base/NIter.vo
Chess/SanSweep.vio: Chess/SanSweep.v Chess/Rules.vio Chess/RulesFacts.vio Chess/Fen.vio Chess/TextProofs.vio Chess/San.vio Base/Geom.vio Base/FileRank.vio Base/NIter.vio
Chess/SanSweep.vos Chess/SanSweep.vok Chess/SanSweep.required_vos: Chess/SanSweep.v Chess/Rules.vos Chess/RulesFacts.vos Chess/Fen.vos Chess/TextProofs.vos Chess/San.vos Base/Geom.vos Base/FileRank.vos Base/NIter.vos
Chess/TextProofs.vo Chess/TextProofs.glob Chess/TextProofs.v.beautified Chess/TextProofs.required_vo: Chess/TextProofs.v Chess/Rules.vo Chess/Fen.vo Chess/RulesFacts.vo Base/FileRank.vo
Chess/TextProofs.vio: Chess/TextProofs.v Chess/Rules.vio Chess/Fen.vio Chess/RulesFacts.vio Base/FileRank.vio
Chess/TextProofs.vos Chess/TextProofs.vok Chess/TextProofs.required_vos: Chess/TextProofs.v Chess/Rules.vos Chess/Fen.vos Chess/RulesFacts.vos Base/FileRank.vos
Chess/ValidStep.vo Chess/ValidStep.glob Chess/ValidStep.v.beautified Chess/ValidStep.required_vo: Chess/ValidStep.v Chess/Rules.vo Chess/RulesFacts.vo Base/Geom.vo Base/FileRank.vo Base/Bits.vo
Chess/ValidStep.vio: Chess/ValidStep.v Chess/Rules.vio Chess/RulesFacts.vio Base/Geom.vio Base/FileRank.vio Base/Bits.vio
Chess/ValidStep.vos Chess/ValidStep.vok Chess/ValidStep.required_vos: Chess/ValidStep.v Chess/Rules.vos Chess/RulesFacts.vos Base/Geom.vos Base/FileRank.vos Base/Bits.vos
Chess/ValidStepEp.vo Chess/ValidStepEp.glob Chess/ValidStepEp.v.beautified Chess/ValidStepEp.required_vo: Chess/ValidStepEp.v Chess/Rules.vo Chess/RulesFacts.vo Chess/ValidStep.vo Base/Geom.vo Base/FileRank.vo Base/Bits.vo
Chess/ValidStepEp.vio: Chess/ValidStepEp.v Chess/Rules.vio Chess/RulesFacts.vio Chess/ValidStep.vio Base/Geom.vio Base/FileRank.vio Base/Bits.vio
Chess/ValidStepEp.vos Chess/ValidStepEp.vok Chess/ValidStepEp.required_vos: Chess/ValidStepEp.v Chess/Rules.vos Chess/RulesFacts.vos Chess/ValidStep.vos Base/Geom.vos Base/FileRank.vos Base/Bits.vos
Engine/Book.vo Engine/Book.glob Engine/Book.v.beautified Engine/Book.required_vo: Engine/Book.v Engine/Encoding.vo
Engine/Book.vio: Engine/Book.v Engine/Encoding.vio
Engine/Book.vos Engine/Book.vok Engine/Book.required_vos: Engine/Book.v Engine/Encoding.vos
Engine/BookProofs.vo Engine/BookProofs.glob Engine/BookProofs.v.beautified Engine/BookProofs.required_vo: Engine/BookProofs.v Engine/Book.vo
Engine/BookProofs.vio: Engine/BookProofs.v Engine/Book.vio
Engine/BookProofs.vos Engine/BookProofs.vok Engine/BookProofs.required_vos: Engine/BookProofs.v Engine/Book.vos
Engine/Classify.vo Engine/Classify.glob Engine/Classify.v.beautified Engine/Classify.required_vo: Engine/Classify.v Engine/RepAbs.vo Engine/Magic.vo
Engine/Classify.vio: Engine/Classify.v Engine/RepAbs.vio Engine/Magic.vio
Engine/Classify.vos Engine/Classify.vok Engine/Classify.required_vos: Engine/Classify.v Engine/RepAbs.vos Engine/Magic.vos
Engine/ClassifyProofs.vo Engine/ClassifyProofs.glob Engine/ClassifyProofs.v.beautified Engine/ClassifyProofs.required_vo: Engine/ClassifyProofs.v Engine/PositionRep.vo Engine/EncodingProofs.vo Engine/RepProofs.vo Engine/RepRoundTrip.vo Engine/RepRoundTripNormal.vo Engine/RepAbs.vo Engine/RepRefine.vo Engine/RepRefineLegal.vo Engine/Classify.vo
Engine/ClassifyProofs.vio: Engine/ClassifyProofs.v Engine/PositionRep.vio Engine/EncodingProofs.vio Engine/RepProofs.vio Engine/RepRoundTrip.vio Engine/RepRoundTripNormal.vio Engine/RepAbs.vio Engine/RepRefine.vio Engine/RepRefineLegal.vio Engine/Classify.vio
Engine/ClassifyProofs.vos Engine/ClassifyProofs.vok Engine/ClassifyProofs.required_vos: Engine/ClassifyProofs.v Engine/PositionRep.vos Engine/EncodingProofs.vos Engine/RepProofs.vos Engine/RepRoundTrip.vos Engine/RepRoundTripNormal.vos Engine/RepAbs.vos Engine/RepRefine.vos Engine/RepRefineLegal.vos Engine/Classify.vos
Engine/Encoding.vo Engine/Encoding.glob Engine/Encoding.v.beautified Engine/Encoding.required_vo: Engine/Encoding.v Base/Bits.vo
Engine/Encoding.vio: Engine/Encoding.v Base/Bits.vio
Engine/Encoding.vos Engine/Encoding.vok Engine/Encoding.required_vos: Engine/Encoding.v Base/Bits.vos
Engine/EncodingProofs.vo Engine/EncodingProofs.glob Engine/EncodingProofs.v.beautified Engine/EncodingProofs.required_vo: Engine/EncodingProofs.v Engine/Encoding.vo
Engine/EncodingProofs.vio: Engine/EncodingProofs.v Engine/Encoding.vio
Engine/EncodingProofs.vos Engine/EncodingProofs.vok Engine/EncodingProofs.required_vos: Engine/EncodingProofs.v Engine/Encoding.vos
Engine/EndgameModel.vo Engine/EndgameModel.glob Engine/EndgameModel.v.beautified Engine/EndgameModel.required_vo: Engine/EndgameModel.v Base/Geom.vo Chess/Rules.vo Engine/KPK.vo Engine/Magic.vo Gen/Consts.vo Gen/EvalConsts.vo
Engine/EndgameModel.vio: Engine/EndgameModel.v Base/Geom.vio Chess/Rules.vio Engine/KPK.vio Engine/Magic.vio Gen/Consts.vio Gen/EvalConsts.vio
Engine/EndgameModel.vos Engine/EndgameModel.vok Engine/EndgameModel.required_vos: Engine/EndgameModel.v Base/Geom.vos Chess/Rules.vos Engine/KPK.vos Engine/Magic.vos Gen/Consts.vos Gen/EvalConsts.vos
Engine/EndgameProofs.vo Engine/EndgameProofs.glob Engine/EndgameProofs.v.beautified Engine/EndgameProofs.required_vo: Engine/EndgameProofs.v Base/Geom.vo Base/NIter.vo Chess/Rules.vo Engine/KPK.vo Engine/Magic.vo Gen/Consts.vo Gen/EvalConsts.vo Engine/EndgameModel.vo
Engine/EndgameProofs.vio: Engine/EndgameProofs.v Base/Geom.vio Base/NIter.vio Chess/Rules.vio Engine/KPK.vio Engine/Magic.vio Gen/Consts.vio Gen/EvalConsts.vio Engine/EndgameModel.vio
Engine/EndgameProofs.vos Engine/EndgameProofs.vok Engine/EndgameProofs.required_vos: Engine/EndgameProofs.v Base/Geom.vos Base/NIter.vos Chess/Rules.vos Engine/KPK.vos Engine/Magic.vos Gen/Consts.vos Gen/EvalConsts.vos Engine/EndgameModel.vos
Engine/EvalCache.vo Engine/EvalCache.glob Engine/EvalCache.v.beautified Engine/EvalCache.required_vo: Engine/EvalCache.v 
Engine/EvalCache.vio: Engine/EvalCache.v 
Engine/EvalCache.vos Engine/EvalCache.vok Engine/EvalCache.required_vos: Engine/EvalCache.v 
Engine/EvalCacheProofs.vo Engine/EvalCacheProofs.glob Engine/EvalCacheProofs.v.beautified Engine/EvalCacheProofs.required_vo: Engine/EvalCacheProofs.v Engine/EvalCache.vo
Engine/EvalCacheProofs.vio: Engine/EvalCacheProofs.v Engine/EvalCache.vio
Engine/EvalCacheProofs.vos Engine/EvalCacheProofs.vok Engine/EvalCacheProofs.required_vos: Engine/EvalCacheProofs.v Engine/EvalCache.vos
Engine/Game.vo Engine/Game.glob Engine/Game.v.beautified Engine/Game.required_vo: Engine/Game.v 
Engine/Game.vio: Engine/Game.v 
Engine/Game.vos Engine/Game.vok Engine/Game.required_vos: Engine/Game.v 
Engine/GameRefine.vo Engine/GameRefine.glob Engine/GameRefine.v.beautified Engine/GameRefine.required_vo: Engine/GameRefine.v Chess/Rules.vo Chess/History.vo Chess/HistoryKeys.vo Chess/ValidStep.vo Chess/GameInv.vo Engine/PositionRep.vo Engine/RepAbs.vo Engine/RepRefine.vo Engine/RepRefineLegal.vo Engine/KeyScratch.vo Engine/KeyScratchMove.vo Engine/KeyScratchInit.vo Engine/HistoryRefine.vo Engine/PolyglotProofs.vo Engine/RepProofs.vo Engine/RepRoundTrip.vo Engine/RepRoundTripLegal.vo Engine/Material.vo Engine/UndoInv.vo
Engine/GameRefine.vio: Engine/GameRefine.v Chess/Rules.vio Chess/History.vio Chess/HistoryKeys.vio Chess/ValidStep.vio Chess/GameInv.vio Engine/PositionRep.vio Engine/RepAbs.vio Engine/RepRefine.vio Engine/RepRefineLegal.vio Engine/KeyScratch.vio Engine/KeyScratchMove.vio Engine/KeyScratchInit.vio Engine/HistoryRefine.vio Engine/PolyglotProofs.vio Engine/RepProofs.vio Engine/RepRoundTrip.vio Engine/RepRoundTripLegal.vio Engine/Material.vio Engine/UndoInv.vio
Engine/GameRefine.vos Engine/GameRefine.vok Engine/GameRefine.required_vos: Engine/GameRefine.v Chess/Rules.vos Chess/History.vos Chess/HistoryKeys.vos Chess/ValidStep.vos Chess/GameInv.vos Engine/PositionRep.vos Engine/RepAbs.vos Engine/RepRefine.vos Engine/RepRefineLegal.vos Engine/KeyScratch.vos Engine/KeyScratchMove.vos Engine/KeyScratchInit.vos Engine/HistoryRefine.vos Engine/PolyglotProofs.vos Engine/RepProofs.vos Engine/RepRoundTrip.vos Engine/RepRoundTripLegal.vos Engine/Material.vos Engine/UndoInv.vos
Engine/GoParse.vo Engine/GoParse.glob Engine/GoParse.v.beautified Engine/GoParse.required_vo: Engine/GoParse.v 
Engine/GoParse.vio: Engine/GoParse.v 
Engine/GoParse.vos Engine/GoParse.vok Engine/GoParse.required_vos: Engine/GoParse.v 
Engine/GoParseProofs.vo Engine/GoParseProofs.glob Engine/GoParseProofs.v.beautified Engine/GoParseProofs.required_vo: Engine/GoParseProofs.v Engine/GoParse.vo
Engine/GoParseProofs.vio: Engine/GoParseProofs.v Engine/GoParse.vio
Engine/GoParseProofs.vos Engine/GoParseProofs.vok Engine/GoParseProofs.required_vos: Engine/GoParseProofs.v Engine/GoParse.vos
Engine/HistoryRefine.vo Engine/HistoryRefine.glob Engine/HistoryRefine.v.beautified Engine/HistoryRefine.required_vo: Engine/HistoryRefine.v Engine/PositionRep.vo Engine/EncodingProofs.vo Engine/RepProofs.vo Engine/RepRoundTrip.vo Engine/RepRoundTripNormal.vo Engine/RepAbs.vo Engine/RepRefine.vo Engine/RepRefineLegal.vo Engine/KeyScratch.vo Engine/KeyScratchMove.vo Engine/KeyScratchInit.vo Chess/History.vo Chess/HistoryKeys.vo Base/NIter.vo
Engine/HistoryRefine.vio: Engine/HistoryRefine.v Engine/PositionRep.vio Engine/EncodingProofs.vio Engine/RepProofs.vio Engine/RepRoundTrip.vio Engine/RepRoundTripNormal.vio Engine/RepAbs.vio Engine/RepRefine.vio Engine/RepRefineLegal.vio Engine/KeyScratch.vio Engine/KeyScratchMove.vio Engine/KeyScratchInit.vio Chess/History.vio Chess/HistoryKeys.vio Base/NIter.vio
Engine/HistoryRefine.vos Engine/HistoryRefine.vok Engine/HistoryRefine.required_vos: Engine/HistoryRefine.v Engine/PositionRep.vos Engine/EncodingProofs.vos Engine/RepProofs.vos Engine/RepRoundTrip.vos Engine/RepRoundTripNormal.vos Engine/RepAbs.vos Engine/RepRefine.vos Engine/RepRefineLegal.vos Engine/KeyScratch.vos Engine/KeyScratchMove.vos Engine/KeyScratchInit.vos Chess/History.vos Chess/HistoryKeys.vos Base/NIter.vos
Engine/KPK.vo Engine/KPK.glob Engine/KPK.v.beautified Engine/KPK.required_vo: Engine/KPK.v Base/Geom.vo Engine/Game.vo
Engine/KPK.vio: Engine/KPK.v Base/Geom.vio Engine/Game.vio
Engine/KPK.vos Engine/KPK.vok Engine/KPK.required_vos: Engine/KPK.v Base/Geom.vos Engine/Game.vos
Engine/KPKRank.vo Engine/KPKRank.glob Engine/KPKRank.v.beautified Engine/KPKRank.required_vo: Engine/KPKRank.v 
Engine/KPKRank.vio: Engine/KPKRank.v 
Engine/KPKRank.vos Engine/KPKRank.vok Engine/KPKRank.required_vos: Engine/KPKRank.v 
Engine/KeyScratch.vo Engine/KeyScratch.glob Engine/KeyScratch.v.beautified Engine/KeyScratch.required_vo: Engine/KeyScratch.v Engine/PositionRep.vo Engine/RepProofs.vo Engine/RepRoundTrip.vo Base/NIter.vo Base/Bits.vo Chess/RulesFacts.vo
Engine/KeyScratch.vio: Engine/KeyScratch.v Engine/PositionRep.vio Engine/RepProofs.vio Engine/RepRoundTrip.vio Base/NIter.vio Base/Bits.vio Chess/RulesFacts.vio
Engine/KeyScratch.vos Engine/KeyScratch.vok Engine/KeyScratch.required_vos: Engine/KeyScratch.v Engine/PositionRep.vos Engine/RepProofs.vos Engine/RepRoundTrip.vos Base/NIter.vos Base/Bits.vos Chess/RulesFacts.vos
Engine/KeyScratchInit.vo Engine/KeyScratchInit.glob Engine/KeyScratchInit.v.beautified Engine/KeyScratchInit.required_vo: Engine/KeyScratchInit.v Engine/PositionRep.vo Engine/RepProofs.vo Engine/RepRoundTrip.vo Engine/RepAbs.vo Engine/RepRefineLegal.vo Engine/KeyScratch.vo Engine/KeyScratchMove.vo Base/NIter.vo Base/Bits.vo Chess/RulesFacts.vo
Engine/KeyScratchInit.vio: Engine/KeyScratchInit.v Engine/PositionRep.vio Engine/RepProofs.vio Engine/RepRoundTrip.vio Engine/RepAbs.vio Engine/RepRefineLegal.vio Engine/KeyScratch.vio Engine/KeyScratchMove.vio Base/NIter.vio Base/Bits.vio Chess/RulesFacts.vio
Engine/KeyScratchInit.vos Engine/KeyScratchInit.vok Engine/KeyScratchInit.required_vos: Engine/KeyScratchInit.v Engine/PositionRep.vos Engine/RepProofs.vos Engine/RepRoundTrip.vos Engine/RepAbs.vos Engine/RepRefineLegal.vos Engine/KeyScratch.vos Engine/KeyScratchMove.vos Base/NIter.vos Base/Bits.vos Chess/RulesFacts.vos
Engine/KeyScratchMove.vo Engine/KeyScratchMove.glob Engine/KeyScratchMove.v.beautified Engine/KeyScratchMove.required_vo: Engine/KeyScratchMove.v Engine/PositionRep.vo Engine/EncodingProofs.vo Engine/RepProofs.vo Engine/RepRoundTrip.vo Engine/RepRoundTripNormal.vo Engine/RepAbs.vo Engine/RepRefine.vo Engine/RepRefineLegal.vo Engine/KeyScratch.vo
Engine/KeyScratchMove.vio: Engine/KeyScratchMove.v Engine/PositionRep.vio Engine/EncodingProofs.vio Engine/RepProofs.vio Engine/RepRoundTrip.vio Engine/RepRoundTripNormal.vio Engine/RepAbs.vio Engine/RepRefine.vio Engine/RepRefineLegal.vio Engine/KeyScratch.vio
Engine/KeyScratchMove.vos Engine/KeyScratchMove.vok Engine/KeyScratchMove.required_vos: Engine/KeyScratchMove.v Engine/PositionRep.vos Engine/EncodingProofs.vos Engine/RepProofs.vos Engine/RepRoundTrip.vos Engine/RepRoundTripNormal.vos Engine/RepAbs.vos Engine/RepRefine.vos Engine/RepRefineLegal.vos Engine/KeyScratch.vos
Engine/Magic.vo Engine/Magic.glob Engine/Magic.v.beautified Engine/Magic.required_vo: Engine/Magic.v Base/Geom.vo
Engine/Magic.vio: Engine/Magic.v Base/Geom.vio
Engine/Magic.vos Engine/Magic.vok Engine/Magic.required_vos: Engine/Magic.v Base/Geom.vos
Engine/MagicProofs.vo Engine/MagicProofs.glob Engine/MagicProofs.v.beautified Engine/MagicProofs.required_vo: Engine/MagicProofs.v Engine/Magic.vo
Engine/MagicProofs.vio: Engine/MagicProofs.v Engine/Magic.vio
Engine/MagicProofs.vos Engine/MagicProofs.vok Engine/MagicProofs.required_vos: Engine/MagicProofs.v Engine/Magic.vos
Engine/MateScore.vo Engine/MateScore.glob Engine/MateScore.v.beautified Engine/MateScore.required_vo: Engine/MateScore.v Gen/Consts.vo Engine/SearchDriver.vo
Engine/MateScore.vio: Engine/MateScore.v Gen/Consts.vio Engine/SearchDriver.vio
Engine/MateScore.vos Engine/MateScore.vok Engine/MateScore.required_vos: Engine/MateScore.v Gen/Consts.vos Engine/SearchDriver.vos
Engine/Material.vo Engine/Material.glob Engine/Material.v.beautified Engine/Material.required_vo: Engine/Material.v Chess/Rules.vo Chess/RulesFacts.vo Chess/History.vo Engine/PositionRep.vo Engine/RepAbs.vo Engine/RepRefine.vo Engine/RepRefineLegal.vo Engine/KeyScratch.vo Engine/KeyScratchMove.vo
Engine/Material.vio: Engine/Material.v Chess/Rules.vio Chess/RulesFacts.vio Chess/History.vio Engine/PositionRep.vio Engine/RepAbs.vio Engine/RepRefine.vio Engine/RepRefineLegal.vio Engine/KeyScratch.vio Engine/KeyScratchMove.vio
Engine/Material.vos Engine/Material.vok Engine/Material.required_vos: Engine/Material.v Chess/Rules.vos Chess/RulesFacts.vos Chess/History.vos Engine/PositionRep.vos Engine/RepAbs.vos Engine/RepRefine.vos Engine/RepRefineLegal.vos Engine/KeyScratch.vos Engine/KeyScratchMove.vos
Engine/Polyglot.vo Engine/Polyglot.glob Engine/Polyglot.v.beautified Engine/Polyglot.required_vo: Engine/Polyglot.v Engine/RepAbs.vo Engine/Magic.vo
Engine/Polyglot.vio: Engine/Polyglot.v Engine/RepAbs.vio Engine/Magic.vio
Engine/Polyglot.vos Engine/Polyglot.vok Engine/Polyglot.required_vos: Engine/Polyglot.v Engine/RepAbs.vos Engine/Magic.vos
Engine/PolyglotInst.vo Engine/PolyglotInst.glob Engine/PolyglotInst.v.beautified Engine/PolyglotInst.required_vo: Engine/PolyglotInst.v Engine/Polyglot.vo Engine/Book.vo Golden/Random64.vo Gen/PolyglotData.vo
Engine/PolyglotInst.vio: Engine/PolyglotInst.v Engine/Polyglot.vio Engine/Book.vio Golden/Random64.vio Gen/PolyglotData.vio
Engine/PolyglotInst.vos Engine/PolyglotInst.vok Engine/PolyglotInst.required_vos: Engine/PolyglotInst.v Engine/Polyglot.vos Engine/Book.vos Golden/Random64.vos Gen/PolyglotData.vos
Engine/PolyglotProofs.vo Engine/PolyglotProofs.glob Engine/PolyglotProofs.v.beautified Engine/PolyglotProofs.required_vo: Engine/PolyglotProofs.v Engine/PositionRep.vo Engine/RepProofs.vo Engine/RepRoundTrip.vo Engine/RepAbs.vo Engine/RepRefine.vo Engine/RepRefineLegal.vo Engine/KeyScratch.vo Engine/KeyScratchMove.vo Engine/KeyScratchInit.vo Engine/Polyglot.vo Engine/Magic.vo Engine/MagicProofs.vo Base/NIter.vo Base/Bits.vo Base/Geom.vo Base/FileRank.vo Chess/RulesFacts.vo
Engine/PolyglotProofs.vio: Engine/PolyglotProofs.v Engine/PositionRep.vio Engine/RepProofs.vio Engine/RepRoundTrip.vio Engine/RepAbs.vio Engine/RepRefine.vio Engine/RepRefineLegal.vio Engine/KeyScratch.vio Engine/KeyScratchMove.vio Engine/KeyScratchInit.vio Engine/Polyglot.vio Engine/Magic.vio Engine/MagicProofs.vio Base/NIter.vio Base/Bits.vio Base/Geom.vio Base/FileRank.vio Chess/RulesFacts.vio
Engine/PolyglotProofs.vos Engine/PolyglotProofs.vok Engine/PolyglotProofs.required_vos: Engine/PolyglotProofs.v Engine/PositionRep.vos Engine/RepProofs.vos Engine/RepRoundTrip.vos Engine/RepAbs.vos Engine/RepRefine.vos Engine/RepRefineLegal.vos Engine/KeyScratch.vos Engine/KeyScratchMove.vos Engine/KeyScratchInit.vos Engine/Polyglot.vos Engine/Magic.vos Engine/MagicProofs.vos Base/NIter.vos Base/Bits.vos Base/Geom.vos Base/FileRank.vos Chess/RulesFacts.vos
Engine/PositionRep.vo Engine/PositionRep.glob Engine/PositionRep.v.beautified Engine/PositionRep.required_vo: Engine/PositionRep.v Engine/Encoding.vo
Engine/PositionRep.vio: Engine/PositionRep.v Engine/Encoding.vio
Engine/PositionRep.vos Engine/PositionRep.vok Engine/PositionRep.required_vos: Engine/PositionRep.v Engine/Encoding.vos
Engine/RepAbs.vo Engine/RepAbs.glob Engine/RepAbs.v.beautified Engine/RepAbs.required_vo: Engine/RepAbs.v Engine/PositionRep.vo Chess/Rules.vo Chess/Fen.vo
Engine/RepAbs.vio: Engine/RepAbs.v Engine/PositionRep.vio Chess/Rules.vio Chess/Fen.vio
Engine/RepAbs.vos Engine/RepAbs.vok Engine/RepAbs.required_vos: Engine/RepAbs.v Engine/PositionRep.vos Chess/Rules.vos Chess/Fen.vos
Engine/RepProofs.vo Engine/RepProofs.glob Engine/RepProofs.v.beautified Engine/RepProofs.required_vo: Engine/RepProofs.v Engine/PositionRep.vo Engine/EncodingProofs.vo
Engine/RepProofs.vio: Engine/RepProofs.v Engine/PositionRep.vio Engine/EncodingProofs.vio
Engine/RepProofs.vos Engine/RepProofs.vok Engine/RepProofs.required_vos: Engine/RepProofs.v Engine/PositionRep.vos Engine/EncodingProofs.vos
Engine/RepRefine.vo Engine/RepRefine.glob Engine/RepRefine.v.beautified Engine/RepRefine.required_vo: Engine/RepRefine.v Engine/PositionRep.vo Engine/EncodingProofs.vo Engine/RepProofs.vo Engine/RepRoundTrip.vo Engine/RepRoundTripNormal.vo Engine/RepAbs.vo Base/NIter.vo
Engine/RepRefine.vio: Engine/RepRefine.v Engine/PositionRep.vio Engine/EncodingProofs.vio Engine/RepProofs.vio Engine/RepRoundTrip.vio Engine/RepRoundTripNormal.vio Engine/RepAbs.vio Base/NIter.vio
Engine/RepRefine.vos Engine/RepRefine.vok Engine/RepRefine.required_vos: Engine/RepRefine.v Engine/PositionRep.vos Engine/EncodingProofs.vos Engine/RepProofs.vos Engine/RepRoundTrip.vos Engine/RepRoundTripNormal.vos Engine/RepAbs.vos Base/NIter.vos
Engine/RepRefineLegal.vo Engine/RepRefineLegal.glob Engine/RepRefineLegal.v.beautified Engine/RepRefineLegal.required_vo: Engine/RepRefineLegal.v Engine/PositionRep.vo Engine/EncodingProofs.vo Engine/RepProofs.vo Engine/RepRoundTrip.vo Engine/RepRoundTripNormal.vo Engine/RepAbs.vo Engine/RepRefine.vo Base/NIter.vo Base/Geom.vo Base/FileRank.vo
Engine/RepRefineLegal.vio: Engine/RepRefineLegal.v Engine/PositionRep.vio Engine/EncodingProofs.vio Engine/RepProofs.vio Engine/RepRoundTrip.vio Engine/RepRoundTripNormal.vio Engine/RepAbs.vio Engine/RepRefine.vio Base/NIter.vio Base/Geom.vio Base/FileRank.vio
Engine/RepRefineLegal.vos Engine/RepRefineLegal.vok Engine/RepRefineLegal.required_vos: Engine/RepRefineLegal.v Engine/PositionRep.vos Engine/EncodingProofs.vos Engine/RepProofs.vos Engine/RepRoundTrip.vos Engine/RepRoundTripNormal.vos Engine/RepAbs.vos Engine/RepRefine.vos Base/NIter.vos Base/Geom.vos Base/FileRank.vos
Engine/RepRoundTrip.vo Engine/RepRoundTrip.glob Engine/RepRoundTrip.v.beautified Engine/RepRoundTrip.required_vo: Engine/RepRoundTrip.v Engine/PositionRep.vo Engine/EncodingProofs.vo Engine/RepProofs.vo
Engine/RepRoundTrip.vio: Engine/RepRoundTrip.v Engine/PositionRep.vio Engine/EncodingProofs.vio Engine/RepProofs.vio
Engine/RepRoundTrip.vos Engine/RepRoundTrip.vok Engine/RepRoundTrip.required_vos: Engine/RepRoundTrip.v Engine/PositionRep.vos Engine/EncodingProofs.vos Engine/RepProofs.vos
Engine/RepRoundTripLegal.vo Engine/RepRoundTripLegal.glob Engine/RepRoundTripLegal.v.beautified Engine/RepRoundTripLegal.required_vo: Engine/RepRoundTripLegal.v Engine/PositionRep.vo Engine/EncodingProofs.vo Engine/RepProofs.vo Engine/RepRoundTrip.vo Engine/RepRoundTripNormal.vo Engine/RepAbs.vo Engine/RepRefine.vo Engine/RepRefineLegal.vo
Engine/RepRoundTripLegal.vio: Engine/RepRoundTripLegal.v Engine/PositionRep.vio Engine/EncodingProofs.vio Engine/RepProofs.vio Engine/RepRoundTrip.vio Engine/RepRoundTripNormal.vio Engine/RepAbs.vio Engine/RepRefine.vio Engine/RepRefineLegal.vio
Engine/RepRoundTripLegal.vos Engine/RepRoundTripLegal.vok Engine/RepRoundTripLegal.required_vos: Engine/RepRoundTripLegal.v Engine/PositionRep.vos Engine/EncodingProofs.vos Engine/RepProofs.vos Engine/RepRoundTrip.vos Engine/RepRoundTripNormal.vos Engine/RepAbs.vos Engine/RepRefine.vos Engine/RepRefineLegal.vos
Engine/RepRoundTripNormal.vo Engine/RepRoundTripNormal.glob Engine/RepRoundTripNormal.v.beautified Engine/RepRoundTripNormal.required_vo: Engine/RepRoundTripNormal.v Engine/PositionRep.vo Engine/EncodingProofs.vo Engine/RepProofs.vo Engine/RepRoundTrip.vo
Engine/RepRoundTripNormal.vio: Engine/RepRoundTripNormal.v Engine/PositionRep.vio Engine/EncodingProofs.vio Engine/RepProofs.vio Engine/RepRoundTrip.vio
Engine/RepRoundTripNormal.vos Engine/RepRoundTripNormal.vok Engine/RepRoundTripNormal.required_vos: Engine/RepRoundTripNormal.v Engine/PositionRep.vos Engine/EncodingProofs.vos Engine/RepProofs.vos Engine/RepRoundTrip.vos
Engine/SearchDriver.vo Engine/SearchDriver.glob Engine/SearchDriver.v.beautified Engine/SearchDriver.required_vo: Engine/SearchDriver.v Gen/Consts.vo
Engine/SearchDriver.vio: Engine/SearchDriver.v Gen/Consts.vio
Engine/SearchDriver.vos Engine/SearchDriver.vok Engine/SearchDriver.required_vos: Engine/SearchDriver.v Gen/Consts.vos
Engine/SearchDriverProofs.vo Engine/SearchDriverProofs.glob Engine/SearchDriverProofs.v.beautified Engine/SearchDriverProofs.required_vo: Engine/SearchDriverProofs.v Gen/Consts.vo Engine/SearchDriver.vo
Engine/SearchDriverProofs.vio: Engine/SearchDriverProofs.v Gen/Consts.vio Engine/SearchDriver.vio
Engine/SearchDriverProofs.vos Engine/SearchDriverProofs.vok Engine/SearchDriverProofs.required_vos: Engine/SearchDriverProofs.v Gen/Consts.vos Engine/SearchDriver.vos
Engine/SearchNode.vo Engine/SearchNode.glob Engine/SearchNode.v.beautified Engine/SearchNode.required_vo: Engine/SearchNode.v Chess/Rules.vo
Engine/SearchNode.vio: Engine/SearchNode.v Chess/Rules.vio
Engine/SearchNode.vos Engine/SearchNode.vok Engine/SearchNode.required_vos: Engine/SearchNode.v Chess/Rules.vos
Engine/SearchNodeProofs.vo Engine/SearchNodeProofs.glob Engine/SearchNodeProofs.v.beautified Engine/SearchNodeProofs.required_vo: Engine/SearchNodeProofs.v Chess/Rules.vo Engine/SearchNode.vo
Engine/SearchNodeProofs.vio: Engine/SearchNodeProofs.v Chess/Rules.vio Engine/SearchNode.vio
Engine/SearchNodeProofs.vos Engine/SearchNodeProofs.vok Engine/SearchNodeProofs.required_vos: Engine/SearchNodeProofs.v Chess/Rules.vos Engine/SearchNode.vos
Engine/StopProofs.vo Engine/StopProofs.glob Engine/StopProofs.v.beautified Engine/StopProofs.required_vo: Engine/StopProofs.v Engine/StopProtocol.vo
Engine/StopProofs.vio: Engine/StopProofs.v Engine/StopProtocol.vio
Engine/StopProofs.vos Engine/StopProofs.vok Engine/StopProofs.required_vos: Engine/StopProofs.v Engine/StopProtocol.vos
Engine/StopProtocol.vo Engine/StopProtocol.glob Engine/StopProtocol.v.beautified Engine/StopProtocol.required_vo: Engine/StopProtocol.v 
Engine/StopProtocol.vio: Engine/StopProtocol.v 
Engine/StopProtocol.vos Engine/StopProtocol.vok Engine/StopProtocol.required_vos: Engine/StopProtocol.v 
Engine/TimeMgr.vo Engine/TimeMgr.glob Engine/TimeMgr.v.beautified Engine/TimeMgr.required_vo: Engine/TimeMgr.v 
Engine/TimeMgr.vio: Engine/TimeMgr.v 
Engine/TimeMgr.vos Engine/TimeMgr.vok Engine/TimeMgr.required_vos: Engine/TimeMgr.v 
Engine/TimeMgrProofs.vo Engine/TimeMgrProofs.glob Engine/TimeMgrProofs.v.beautified Engine/TimeMgrProofs.required_vo: Engine/TimeMgrProofs.v Engine/TimeMgr.vo
Engine/TimeMgrProofs.vio: Engine/TimeMgrProofs.v Engine/TimeMgr.vio
Engine/TimeMgrProofs.vos Engine/TimeMgrProofs.vok Engine/TimeMgrProofs.required_vos: Engine/TimeMgrProofs.v Engine/TimeMgr.vos
Engine/UciSession.vo Engine/UciSession.glob Engine/UciSession.v.beautified Engine/UciSession.required_vo: Engine/UciSession.v Chess/Rules.vo Chess/Fen.vo
Engine/UciSession.vio: Engine/UciSession.v Chess/Rules.vio Chess/Fen.vio
Engine/UciSession.vos Engine/UciSession.vok Engine/UciSession.required_vos: Engine/UciSession.v Chess/Rules.vos Chess/Fen.vos
Engine/UciSessionText.vo Engine/UciSessionText.glob Engine/UciSessionText.v.beautified Engine/UciSessionText.required_vo: Engine/UciSessionText.v Chess/Rules.vo Chess/Fen.vo Chess/TextProofs.vo Chess/FenProofs.vo Engine/UciSession.vo
Engine/UciSessionText.vio: Engine/UciSessionText.v Chess/Rules.vio Chess/Fen.vio Chess/TextProofs.vio Chess/FenProofs.vio Engine/UciSession.vio
Engine/UciSessionText.vos Engine/UciSessionText.vok Engine/UciSessionText.required_vos: Engine/UciSessionText.v Chess/Rules.vos Chess/Fen.vos Chess/TextProofs.vos Chess/FenProofs.vos Engine/UciSession.vos
Engine/UndoInv.vo Engine/UndoInv.glob Engine/UndoInv.v.beautified Engine/UndoInv.required_vo: Engine/UndoInv.v Engine/PositionRep.vo Engine/EncodingProofs.vo Engine/RepProofs.vo Engine/RepRoundTrip.vo Engine/RepRoundTripNormal.vo Engine/RepAbs.vo Engine/RepRefine.vo Engine/RepRefineLegal.vo Engine/RepRoundTripLegal.vo Engine/KeyScratch.vo Engine/KeyScratchMove.vo
Engine/UndoInv.vio: Engine/UndoInv.v Engine/PositionRep.vio Engine/EncodingProofs.vio Engine/RepProofs.vio Engine/RepRoundTrip.vio Engine/RepRoundTripNormal.vio Engine/RepAbs.vio Engine/RepRefine.vio Engine/RepRefineLegal.vio Engine/RepRoundTripLegal.vio Engine/KeyScratch.vio Engine/KeyScratchMove.vio
Engine/UndoInv.vos Engine/UndoInv.vok Engine/UndoInv.required_vos: Engine/UndoInv.v Engine/PositionRep.vos Engine/EncodingProofs.vos Engine/RepProofs.vos Engine/RepRoundTrip.vos Engine/RepRoundTripNormal.vos Engine/RepAbs.vos Engine/RepRefine.vos Engine/RepRefineLegal.vos Engine/RepRoundTripLegal.vos Engine/KeyScratch.vos Engine/KeyScratchMove.vos
Gen/BitbaseDump.vo Gen/BitbaseDump.glob Gen/BitbaseDump.v.beautified Gen/BitbaseDump.required_vo: Gen/BitbaseDump.v 
Gen/BitbaseDump.vio: Gen/BitbaseDump.v 
Gen/BitbaseDump.vos Gen/BitbaseDump.vok Gen/BitbaseDump.required_vos: Gen/BitbaseDump.v 
Gen/Consts.vo Gen/Consts.glob Gen/Consts.v.beautified Gen/Consts.required_vo: Gen/Consts.v 
Gen/Consts.vio: Gen/Consts.v 
Gen/Consts.vos Gen/Consts.vok Gen/Consts.required_vos: Gen/Consts.v 
Gen/EvalConsts.vo Gen/EvalConsts.glob Gen/EvalConsts.v.beautified Gen/EvalConsts.required_vo: Gen/EvalConsts.v 
Gen/EvalConsts.vio: Gen/EvalConsts.v 
Gen/EvalConsts.vos Gen/EvalConsts.vok Gen/EvalConsts.required_vos: Gen/EvalConsts.v 
Gen/Layout.vo Gen/Layout.glob Gen/Layout.v.beautified Gen/Layout.required_vo: Gen/Layout.v 
Gen/Layout.vio: Gen/Layout.v 
Gen/Layout.vos Gen/Layout.vok Gen/Layout.required_vos: Gen/Layout.v 
Gen/LayoutAst.vo Gen/LayoutAst.glob Gen/LayoutAst.v.beautified Gen/LayoutAst.required_vo: Gen/LayoutAst.v 
Gen/LayoutAst.vio: Gen/LayoutAst.v 
Gen/LayoutAst.vos Gen/LayoutAst.vok Gen/LayoutAst.required_vos: Gen/LayoutAst.v 
Gen/MagicData.vo Gen/MagicData.glob Gen/MagicData.v.beautified Gen/MagicData.required_vo: Gen/MagicData.v 
Gen/MagicData.vio: Gen/MagicData.v 
Gen/MagicData.vos Gen/MagicData.vok Gen/MagicData.required_vos: Gen/MagicData.v 
Gen/PolyglotData.vo Gen/PolyglotData.glob Gen/PolyglotData.v.beautified Gen/PolyglotData.required_vo: Gen/PolyglotData.v 
Gen/PolyglotData.vio: Gen/PolyglotData.v 
Gen/PolyglotData.vos Gen/PolyglotData.vok Gen/PolyglotData.required_vos: Gen/PolyglotData.v 
Golden/Random64.vo Golden/Random64.glob Golden/Random64.v.beautified Golden/Random64.required_vo: Golden/Random64.v 
Golden/Random64.vio: Golden/Random64.v 
Golden/Random64.vos Golden/Random64.vok Golden/Random64.required_vos: Golden/Random64.v 
Props/C11Glue.vo Props/C11Glue.glob Props/C11Glue.v.beautified Props/C11Glue.required_vo: Props/C11Glue.v Engine/Magic.vo Engine/MagicProofs.vo Gen/MagicData.vo Props/C11Sweep_R0.vo Props/C11Sweep_R1.vo Props/C11Sweep_R2.vo Props/C11Sweep_R3.vo Props/C11Sweep_R4.vo Props/C11Sweep_R5.vo Props/C11Sweep_R6.vo Props/C11Sweep_R7.vo Props/C11Sweep_B.vo
Props/C11Glue.vio: Props/C11Glue.v Engine/Magic.vio Engine/MagicProofs.vio Gen/MagicData.vio Props/C11Sweep_R0.vio Props/C11Sweep_R1.vio Props/C11Sweep_R2.vio Props/C11Sweep_R3.vio Props/C11Sweep_R4.vio Props/C11Sweep_R5.vio Props/C11Sweep_R6.vio Props/C11Sweep_R7.vio Props/C11Sweep_B.vio
Props/C11Glue.vos Props/C11Glue.vok Props/C11Glue.required_vos: Props/C11Glue.v Engine/Magic.vos Engine/MagicProofs.vos Gen/MagicData.vos Props/C11Sweep_R0.vos Props/C11Sweep_R1.vos Props/C11Sweep_R2.vos Props/C11Sweep_R3.vos Props/C11Sweep_R4.vos Props/C11Sweep_R5.vos Props/C11Sweep_R6.vos Props/C11Sweep_R7.vos Props/C11Sweep_B.vos
Props/C11Sweep_B.vo Props/C11Sweep_B.glob Props/C11Sweep_B.v.beautified Props/C11Sweep_B.required_vo: Props/C11Sweep_B.v Engine/Magic.vo Gen/MagicData.vo
Props/C11Sweep_B.vio: Props/C11Sweep_B.v Engine/Magic.vio Gen/MagicData.vio
Props/C11Sweep_B.vos Props/C11Sweep_B.vok Props/C11Sweep_B.required_vos: Props/C11Sweep_B.v Engine/Magic.vos Gen/MagicData.vos
Props/C11Sweep_R0.vo Props/C11Sweep_R0.glob Props/C11Sweep_R0.v.beautified Props/C11Sweep_R0.required_vo: Props/C11Sweep_R0.v Engine/Magic.vo Gen/MagicData.vo
Props/C11Sweep_R0.vio: Props/C11Sweep_R0.v Engine/Magic.vio Gen/MagicData.vio
Props/C11Sweep_R0.vos Props/C11Sweep_R0.vok Props/C11Sweep_R0.required_vos: Props/C11Sweep_R0.v Engine/Magic.vos Gen/MagicData.vos
Props/C11Sweep_R1.vo Props/C11Sweep_R1.glob Props/C11Sweep_R1.v.beautified Props/C11Sweep_R1.required_vo: Props/C11Sweep_R1.v Engine/Magic.vo Gen/MagicData.vo
Props/C11Sweep_R1.vio: Props/C11Sweep_R1.v Engine/Magic.vio Gen/MagicData.vio
Props/C11Sweep_R1.vos Props/C11Sweep_R1.vok Props/C11Sweep_R1.required_vos: Props/C11Sweep_R1.v Engine/Magic.vos Gen/MagicData.vos
Props/C11Sweep_R2.vo Props/C11Sweep_R2.glob Props/C11Sweep_R2.v.beautified Props/C11Sweep_R2.required_vo: Props/C11Sweep_R2.v Engine/Magic.vo Gen/MagicData.vo
Props/C11Sweep_R2.vio: Props/C11Sweep_R2.v Engine/Magic.vio Gen/MagicData.vio
Props/C11Sweep_R2.vos Props/C11Sweep_R2.vok Props/C11Sweep_R2.required_vos: Props/C11Sweep_R2.v Engine/Magic.vos Gen/MagicData.vos
Props/C11Sweep_R3.vo Props/C11Sweep_R3.glob Props/C11Sweep_R3.v.beautified Props/C11Sweep_R3.required_vo: Props/C11Sweep_R3.v Engine/Magic.vo Gen/MagicData.vo
Props/C11Sweep_R3.vio: Props/C11Sweep_R3.v Engine/Magic.vio Gen/MagicData.vio
Props/C11Sweep_R3.vos Props/C11Sweep_R3.vok Props/C11Sweep_R3.required_vos: Props/C11Sweep_R3.v Engine/Magic.vos Gen/MagicData.vos
Props/C11Sweep_R4.vo Props/C11Sweep_R4.glob Props/C11Sweep_R4.v.beautified Props/C11Sweep_R4.required_vo: Props/C11Sweep_R4.v Engine/Magic.vo Gen/MagicData.vo
Props/C11Sweep_R4.vio: Props/C11Sweep_R4.v Engine/Magic.vio Gen/MagicData.vio
Props/C11Sweep_R4.vos Props/C11Sweep_R4.vok Props/C11Sweep_R4.required_vos: Props/C11Sweep_R4.v Engine/Magic.vos Gen/MagicData.vos
Props/C11Sweep_R5.vo Props/C11Sweep_R5.glob Props/C11Sweep_R5.v.beautified Props/C11Sweep_R5.required_vo: Props/C11Sweep_R5.v Engine/Magic.vo Gen/MagicData.vo
Props/C11Sweep_R5.vio: Props/C11Sweep_R5.v Engine/Magic.vio Gen/MagicData.vio
Props/C11Sweep_R5.vos Props/C11Sweep_R5.vok Props/C11Sweep_R5.required_vos: Props/C11Sweep_R5.v Engine/Magic.vos Gen/MagicData.vos
Props/C11Sweep_R6.vo Props/C11Sweep_R6.glob Props/C11Sweep_R6.v.beautified Props/C11Sweep_R6.required_vo: Props/C11Sweep_R6.v Engine/Magic.vo Gen/MagicData.vo
Props/C11Sweep_R6.vio: Props/C11Sweep_R6.v Engine/Magic.vio Gen/MagicData.vio
Props/C11Sweep_R6.vos Props/C11Sweep_R6.vok Props/C11Sweep_R6.required_vos: Props/C11Sweep_R6.v Engine/Magic.vos Gen/MagicData.vos
Props/C11Sweep_R7.vo Props/C11Sweep_R7.glob Props/C11Sweep_R7.v.beautified Props/C11Sweep_R7.required_vo: Props/C11Sweep_R7.v Engine/Magic.vo Gen/MagicData.vo
Props/C11Sweep_R7.vio: Props/C11Sweep_R7.v Engine/Magic.vio Gen/MagicData.vio
Props/C11Sweep_R7.vos Props/C11Sweep_R7.vok Props/C11Sweep_R7.required_vos: Props/C11Sweep_R7.v Engine/Magic.vos Gen/MagicData.vos
Props/C12Cert_0.vo Props/C12Cert_0.glob Props/C12Cert_0.v.beautified Props/C12Cert_0.required_vo: Props/C12Cert_0.v Engine/KPK.vo Base/NIter.vo Props/C12Tables.vo Props/C12Defs.vo
Props/C12Cert_0.vio: Props/C12Cert_0.v Engine/KPK.vio Base/NIter.vio Props/C12Tables.vio Props/C12Defs.vio
Props/C12Cert_0.vos Props/C12Cert_0.vok Props/C12Cert_0.required_vos: Props/C12Cert_0.v Engine/KPK.vos Base/NIter.vos Props/C12Tables.vos Props/C12Defs.vos
Props/C12Cert_1.vo Props/C12Cert_1.glob Props/C12Cert_1.v.beautified Props/C12Cert_1.required_vo: Props/C12Cert_1.v Engine/KPK.vo Base/NIter.vo Props/C12Tables.vo Props/C12Defs.vo
Props/C12Cert_1.vio: Props/C12Cert_1.v Engine/KPK.vio Base/NIter.vio Props/C12Tables.vio Props/C12Defs.vio
Props/C12Cert_1.vos Props/C12Cert_1.vok Props/C12Cert_1.required_vos: Props/C12Cert_1.v Engine/KPK.vos Base/NIter.vos Props/C12Tables.vos Props/C12Defs.vos
Props/C12Cert_2.vo Props/C12Cert_2.glob Props/C12Cert_2.v.beautified Props/C12Cert_2.required_vo: Props/C12Cert_2.v Engine/KPK.vo Base/NIter.vo Props/C12Tables.vo Props/C12Defs.vo
Props/C12Cert_2.vio: Props/C12Cert_2.v Engine/KPK.vio Base/NIter.vio Props/C12Tables.vio Props/C12Defs.vio
Props/C12Cert_2.vos Props/C12Cert_2.vok Props/C12Cert_2.required_vos: Props/C12Cert_2.v Engine/KPK.vos Base/NIter.vos Props/C12Tables.vos Props/C12Defs.vos
Props/C12Cert_3.vo Props/C12Cert_3.glob Props/C12Cert_3.v.beautified Props/C12Cert_3.required_vo: Props/C12Cert_3.v Engine/KPK.vo Base/NIter.vo Props/C12Tables.vo Props/C12Defs.vo
Props/C12Cert_3.vio: Props/C12Cert_3.v Engine/KPK.vio Base/NIter.vio Props/C12Tables.vio Props/C12Defs.vio
Props/C12Cert_3.vos Props/C12Cert_3.vok Props/C12Cert_3.required_vos: Props/C12Cert_3.v Engine/KPK.vos Base/NIter.vos Props/C12Tables.vos Props/C12Defs.vos
Props/C12Cert_4.vo Props/C12Cert_4.glob Props/C12Cert_4.v.beautified Props/C12Cert_4.required_vo: Props/C12Cert_4.v Engine/KPK.vo Base/NIter.vo Props/C12Tables.vo Props/C12Defs.vo
Props/C12Cert_4.vio: Props/C12Cert_4.v Engine/KPK.vio Base/NIter.vio Props/C12Tables.vio Props/C12Defs.vio
Props/C12Cert_4.vos Props/C12Cert_4.vok Props/C12Cert_4.required_vos: Props/C12Cert_4.v Engine/KPK.vos Base/NIter.vos Props/C12Tables.vos Props/C12Defs.vos
Props/C12Cert_5.vo Props/C12Cert_5.glob Props/C12Cert_5.v.beautified Props/C12Cert_5.required_vo: Props/C12Cert_5.v Engine/KPK.vo Base/NIter.vo Props/C12Tables.vo Props/C12Defs.vo
Props/C12Cert_5.vio: Props/C12Cert_5.v Engine/KPK.vio Base/NIter.vio Props/C12Tables.vio Props/C12Defs.vio
Props/C12Cert_5.vos Props/C12Cert_5.vok Props/C12Cert_5.required_vos: Props/C12Cert_5.v Engine/KPK.vos Base/NIter.vos Props/C12Tables.vos Props/C12Defs.vos
Props/C12Cert_6.vo Props/C12Cert_6.glob Props/C12Cert_6.v.beautified Props/C12Cert_6.required_vo: Props/C12Cert_6.v Engine/KPK.vo Base/NIter.vo Props/C12Tables.vo Props/C12Defs.vo
Props/C12Cert_6.vio: Props/C12Cert_6.v Engine/KPK.vio Base/NIter.vio Props/C12Tables.vio Props/C12Defs.vio
Props/C12Cert_6.vos Props/C12Cert_6.vok Props/C12Cert_6.required_vos: Props/C12Cert_6.v Engine/KPK.vos Base/NIter.vos Props/C12Tables.vos Props/C12Defs.vos
Props/C12Cert_7.vo Props/C12Cert_7.glob Props/C12Cert_7.v.beautified Props/C12Cert_7.required_vo: Props/C12Cert_7.v Engine/KPK.vo Base/NIter.vo Props/C12Tables.vo Props/C12Defs.vo
Props/C12Cert_7.vio: Props/C12Cert_7.v Engine/KPK.vio Base/NIter.vio Props/C12Tables.vio Props/C12Defs.vio
Props/C12Cert_7.vos Props/C12Cert_7.vok Props/C12Cert_7.required_vos: Props/C12Cert_7.v Engine/KPK.vos Base/NIter.vos Props/C12Tables.vos Props/C12Defs.vos
Props/C12Defs.vo Props/C12Defs.glob Props/C12Defs.v.beautified Props/C12Defs.required_vo: Props/C12Defs.v Engine/KPK.vo Base/NIter.vo Props/C12Tables.vo
Props/C12Defs.vio: Props/C12Defs.v Engine/KPK.vio Base/NIter.vio Props/C12Tables.vio
Props/C12Defs.vos Props/C12Defs.vok Props/C12Defs.required_vos: Props/C12Defs.v Engine/KPK.vos Base/NIter.vos Props/C12Tables.vos
Props/C12Glue.vo Props/C12Glue.glob Props/C12Glue.v.beautified Props/C12Glue.required_vo: Props/C12Glue.v Engine/KPK.vo Base/NIter.vo Props/C12Tables.vo Props/C12Defs.vo Props/C12Cert_0.vo Props/C12Cert_1.vo Props/C12Cert_2.vo Props/C12Cert_3.vo Props/C12Cert_4.vo Props/C12Cert_5.vo Props/C12Cert_6.vo Props/C12Cert_7.vo
Props/C12Glue.vio: Props/C12Glue.v Engine/KPK.vio Base/NIter.vio Props/C12Tables.vio Props/C12Defs.vio Props/C12Cert_0.vio Props/C12Cert_1.vio Props/C12Cert_2.vio Props/C12Cert_3.vio Props/C12Cert_4.vio Props/C12Cert_5.vio Props/C12Cert_6.vio Props/C12Cert_7.vio
Props/C12Glue.vos Props/C12Glue.vok Props/C12Glue.required_vos: Props/C12Glue.v Engine/KPK.vos Base/NIter.vos Props/C12Tables.vos Props/C12Defs.vos Props/C12Cert_0.vos Props/C12Cert_1.vos Props/C12Cert_2.vos Props/C12Cert_3.vos Props/C12Cert_4.vos Props/C12Cert_5.vos Props/C12Cert_6.vos Props/C12Cert_7.vos
Props/C12Tables.vo Props/C12Tables.glob Props/C12Tables.v.beautified Props/C12Tables.required_vo: Props/C12Tables.v Engine/KPK.vo Engine/KPKRank.vo Engine/Magic.vo Gen/BitbaseDump.vo Base/NIter.vo
Props/C12Tables.vio: Props/C12Tables.v Engine/KPK.vio Engine/KPKRank.vio Engine/Magic.vio Gen/BitbaseDump.vio Base/NIter.vio
Props/C12Tables.vos Props/C12Tables.vok Props/C12Tables.required_vos: Props/C12Tables.v Engine/KPK.vos Engine/KPKRank.vos Engine/Magic.vos Gen/BitbaseDump.vos Base/NIter.vos
Props/Properties_C01.vo Props/Properties_C01.glob Props/Properties_C01.v.beautified Props/Properties_C01.required_vo: Props/Properties_C01.v Chess/Rules.vo Chess/RulesFacts.vo
Props/Properties_C01.vio: Props/Properties_C01.v Chess/Rules.vio Chess/RulesFacts.vio
Props/Properties_C01.vos Props/Properties_C01.vok Props/Properties_C01.required_vos: Props/Properties_C01.v Chess/Rules.vos Chess/RulesFacts.vos
Props/Properties_C02.vo Props/Properties_C02.glob Props/Properties_C02.v.beautified Props/Properties_C02.required_vo: Props/Properties_C02.v Chess/Rules.vo Engine/PositionRep.vo Engine/RepAbs.vo Engine/RepRefine.vo Engine/RepRefineLegal.vo Engine/RepRoundTripNormal.vo Base/NIter.vo Chess/History.vo Chess/HistoryKeys.vo Chess/ValidStep.vo Chess/GameInv.vo Engine/KeyScratchInit.vo Engine/HistoryRefine.vo Engine/GameRefine.vo Chess/Fen.vo Engine/UciSession.vo Engine/UciSessionText.vo
Props/Properties_C02.vio: Props/Properties_C02.v Chess/Rules.vio Engine/PositionRep.vio Engine/RepAbs.vio Engine/RepRefine.vio Engine/RepRefineLegal.vio Engine/RepRoundTripNormal.vio Base/NIter.vio Chess/History.vio Chess/HistoryKeys.vio Chess/ValidStep.vio Chess/GameInv.vio Engine/KeyScratchInit.vio Engine/HistoryRefine.vio Engine/GameRefine.vio Chess/Fen.vio Engine/UciSession.vio Engine/UciSessionText.vio
Props/Properties_C02.vos Props/Properties_C02.vok Props/Properties_C02.required_vos: Props/Properties_C02.v Chess/Rules.vos Engine/PositionRep.vos Engine/RepAbs.vos Engine/RepRefine.vos Engine/RepRefineLegal.vos Engine/RepRoundTripNormal.vos Base/NIter.vos Chess/History.vos Chess/HistoryKeys.vos Chess/ValidStep.vos Chess/GameInv.vos Engine/KeyScratchInit.vos Engine/HistoryRefine.vos Engine/GameRefine.vos Chess/Fen.vos Engine/UciSession.vos Engine/UciSessionText.vos
Props/Properties_C03.vo Props/Properties_C03.glob Props/Properties_C03.v.beautified Props/Properties_C03.required_vo: Props/Properties_C03.v Engine/PositionRep.vo Engine/RepAbs.vo Engine/RepProofs.vo Engine/RepRoundTrip.vo Engine/RepRoundTripNormal.vo Engine/Encoding.vo Engine/RepRefine.vo Engine/RepRefineLegal.vo Engine/RepRoundTripLegal.vo Chess/Rules.vo Chess/ValidStep.vo Chess/GameInv.vo Engine/KeyScratchInit.vo Engine/GameRefine.vo Engine/KeyScratch.vo Engine/KeyScratchMove.vo Engine/UndoInv.vo
Props/Properties_C03.vio: Props/Properties_C03.v Engine/PositionRep.vio Engine/RepAbs.vio Engine/RepProofs.vio Engine/RepRoundTrip.vio Engine/RepRoundTripNormal.vio Engine/Encoding.vio Engine/RepRefine.vio Engine/RepRefineLegal.vio Engine/RepRoundTripLegal.vio Chess/Rules.vio Chess/ValidStep.vio Chess/GameInv.vio Engine/KeyScratchInit.vio Engine/GameRefine.vio Engine/KeyScratch.vio Engine/KeyScratchMove.vio Engine/UndoInv.vio
Props/Properties_C03.vos Props/Properties_C03.vok Props/Properties_C03.required_vos: Props/Properties_C03.v Engine/PositionRep.vos Engine/RepAbs.vos Engine/RepProofs.vos Engine/RepRoundTrip.vos Engine/RepRoundTripNormal.vos Engine/Encoding.vos Engine/RepRefine.vos Engine/RepRefineLegal.vos Engine/RepRoundTripLegal.vos Chess/Rules.vos Chess/ValidStep.vos Chess/GameInv.vos Engine/KeyScratchInit.vos Engine/GameRefine.vos Engine/KeyScratch.vos Engine/KeyScratchMove.vos Engine/UndoInv.vos
Props/Properties_C04.vo Props/Properties_C04.glob Props/Properties_C04.v.beautified Props/Properties_C04.required_vo: Props/Properties_C04.v Engine/PositionRep.vo Engine/RepAbs.vo Engine/RepProofs.vo Engine/RepRefine.vo Engine/RepRefineLegal.vo Engine/RepRoundTrip.vo Engine/KeyScratch.vo Engine/KeyScratchMove.vo Engine/KeyScratchInit.vo Chess/Rules.vo Chess/History.vo Chess/HistoryKeys.vo Chess/ValidStep.vo Chess/GameInv.vo Engine/HistoryRefine.vo Engine/GameRefine.vo Engine/UndoInv.vo
Props/Properties_C04.vio: Props/Properties_C04.v Engine/PositionRep.vio Engine/RepAbs.vio Engine/RepProofs.vio Engine/RepRefine.vio Engine/RepRefineLegal.vio Engine/RepRoundTrip.vio Engine/KeyScratch.vio Engine/KeyScratchMove.vio Engine/KeyScratchInit.vio Chess/Rules.vio Chess/History.vio Chess/HistoryKeys.vio Chess/ValidStep.vio Chess/GameInv.vio Engine/HistoryRefine.vio Engine/GameRefine.vio Engine/UndoInv.vio
Props/Properties_C04.vos Props/Properties_C04.vok Props/Properties_C04.required_vos: Props/Properties_C04.v Engine/PositionRep.vos Engine/RepAbs.vos Engine/RepProofs.vos Engine/RepRefine.vos Engine/RepRefineLegal.vos Engine/RepRoundTrip.vos Engine/KeyScratch.vos Engine/KeyScratchMove.vos Engine/KeyScratchInit.vos Chess/Rules.vos Chess/History.vos Chess/HistoryKeys.vos Chess/ValidStep.vos Chess/GameInv.vos Engine/HistoryRefine.vos Engine/GameRefine.vos Engine/UndoInv.vos
Props/Properties_C05.vo Props/Properties_C05.glob Props/Properties_C05.v.beautified Props/Properties_C05.required_vo: Props/Properties_C05.v Gen/Consts.vo Engine/SearchDriver.vo Engine/SearchDriverProofs.vo Chess/Rules.vo Engine/SearchNode.vo Engine/SearchNodeProofs.vo
Props/Properties_C05.vio: Props/Properties_C05.v Gen/Consts.vio Engine/SearchDriver.vio Engine/SearchDriverProofs.vio Chess/Rules.vio Engine/SearchNode.vio Engine/SearchNodeProofs.vio
Props/Properties_C05.vos Props/Properties_C05.vok Props/Properties_C05.required_vos: Props/Properties_C05.v Gen/Consts.vos Engine/SearchDriver.vos Engine/SearchDriverProofs.vos Chess/Rules.vos Engine/SearchNode.vos Engine/SearchNodeProofs.vos
Props/Properties_C06.vo Props/Properties_C06.glob Props/Properties_C06.v.beautified Props/Properties_C06.required_vo: Props/Properties_C06.v Gen/Layout.vo Gen/LayoutAst.vo Engine/StopProtocol.vo Engine/StopProofs.vo
Props/Properties_C06.vio: Props/Properties_C06.v Gen/Layout.vio Gen/LayoutAst.vio Engine/StopProtocol.vio Engine/StopProofs.vio
Props/Properties_C06.vos Props/Properties_C06.vok Props/Properties_C06.required_vos: Props/Properties_C06.v Gen/Layout.vos Gen/LayoutAst.vos Engine/StopProtocol.vos Engine/StopProofs.vos
Props/Properties_C07.vo Props/Properties_C07.glob Props/Properties_C07.v.beautified Props/Properties_C07.required_vo: Props/Properties_C07.v Chess/Rules.vo Chess/History.vo Chess/RulesFacts.vo Chess/HistoryKeys.vo Engine/PositionRep.vo Engine/RepAbs.vo Engine/RepRefineLegal.vo Engine/KeyScratchInit.vo Engine/HistoryRefine.vo Chess/ValidStep.vo Chess/GameInv.vo Engine/GameRefine.vo Engine/KeyScratch.vo Engine/Material.vo
Props/Properties_C07.vio: Props/Properties_C07.v Chess/Rules.vio Chess/History.vio Chess/RulesFacts.vio Chess/HistoryKeys.vio Engine/PositionRep.vio Engine/RepAbs.vio Engine/RepRefineLegal.vio Engine/KeyScratchInit.vio Engine/HistoryRefine.vio Chess/ValidStep.vio Chess/GameInv.vio Engine/GameRefine.vio Engine/KeyScratch.vio Engine/Material.vio
Props/Properties_C07.vos Props/Properties_C07.vok Props/Properties_C07.required_vos: Props/Properties_C07.v Chess/Rules.vos Chess/History.vos Chess/RulesFacts.vos Chess/HistoryKeys.vos Engine/PositionRep.vos Engine/RepAbs.vos Engine/RepRefineLegal.vos Engine/KeyScratchInit.vos Engine/HistoryRefine.vos Chess/ValidStep.vos Chess/GameInv.vos Engine/GameRefine.vos Engine/KeyScratch.vos Engine/Material.vos
Props/Properties_C08.vo Props/Properties_C08.glob Props/Properties_C08.v.beautified Props/Properties_C08.required_vo: Props/Properties_C08.v Gen/Consts.vo Engine/SearchDriver.vo Engine/MateScore.vo
Props/Properties_C08.vio: Props/Properties_C08.v Gen/Consts.vio Engine/SearchDriver.vio Engine/MateScore.vio
Props/Properties_C08.vos Props/Properties_C08.vok Props/Properties_C08.required_vos: Props/Properties_C08.v Gen/Consts.vos Engine/SearchDriver.vos Engine/MateScore.vos
Props/Properties_C09.vo Props/Properties_C09.glob Props/Properties_C09.v.beautified Props/Properties_C09.required_vo: Props/Properties_C09.v Gen/Consts.vo Engine/SearchDriver.vo Engine/SearchDriverProofs.vo Engine/GoParse.vo Engine/GoParseProofs.vo
Props/Properties_C09.vio: Props/Properties_C09.v Gen/Consts.vio Engine/SearchDriver.vio Engine/SearchDriverProofs.vio Engine/GoParse.vio Engine/GoParseProofs.vio
Props/Properties_C09.vos Props/Properties_C09.vok Props/Properties_C09.required_vos: Props/Properties_C09.v Gen/Consts.vos Engine/SearchDriver.vos Engine/SearchDriverProofs.vos Engine/GoParse.vos Engine/GoParseProofs.vos
Props/Properties_C10.vo Props/Properties_C10.glob Props/Properties_C10.v.beautified Props/Properties_C10.required_vo: Props/Properties_C10.v Gen/Consts.vo Gen/Layout.vo Gen/LayoutAst.vo Engine/SearchDriver.vo Engine/SearchDriverProofs.vo
Props/Properties_C10.vio: Props/Properties_C10.v Gen/Consts.vio Gen/Layout.vio Gen/LayoutAst.vio Engine/SearchDriver.vio Engine/SearchDriverProofs.vio
Props/Properties_C10.vos Props/Properties_C10.vok Props/Properties_C10.required_vos: Props/Properties_C10.v Gen/Consts.vos Gen/Layout.vos Gen/LayoutAst.vos Engine/SearchDriver.vos Engine/SearchDriverProofs.vos
Props/Properties_C11.vo Props/Properties_C11.glob Props/Properties_C11.v.beautified Props/Properties_C11.required_vo: Props/Properties_C11.v Engine/Magic.vo Engine/MagicProofs.vo Props/C11Glue.vo Gen/MagicData.vo Props/C11Sweep_R0.vo Props/C11Sweep_R1.vo Props/C11Sweep_R2.vo Props/C11Sweep_R3.vo Props/C11Sweep_R4.vo Props/C11Sweep_R5.vo Props/C11Sweep_R6.vo Props/C11Sweep_R7.vo Props/C11Sweep_B.vo
Props/Properties_C11.vio: Props/Properties_C11.v Engine/Magic.vio Engine/MagicProofs.vio Props/C11Glue.vio Gen/MagicData.vio Props/C11Sweep_R0.vio Props/C11Sweep_R1.vio Props/C11Sweep_R2.vio Props/C11Sweep_R3.vio Props/C11Sweep_R4.vio Props/C11Sweep_R5.vio Props/C11Sweep_R6.vio Props/C11Sweep_R7.vio Props/C11Sweep_B.vio
Props/Properties_C11.vos Props/Properties_C11.vok Props/Properties_C11.required_vos: Props/Properties_C11.v Engine/Magic.vos Engine/MagicProofs.vos Props/C11Glue.vos Gen/MagicData.vos Props/C11Sweep_R0.vos Props/C11Sweep_R1.vos Props/C11Sweep_R2.vos Props/C11Sweep_R3.vos Props/C11Sweep_R4.vos Props/C11Sweep_R5.vos Props/C11Sweep_R6.vos Props/C11Sweep_R7.vos Props/C11Sweep_B.vos
Props/Properties_C12.vo Props/Properties_C12.glob Props/Properties_C12.v.beautified Props/Properties_C12.required_vo: Props/Properties_C12.v Engine/KPK.vo Engine/Magic.vo Base/NIter.vo Props/C12Tables.vo Props/C12Defs.vo Props/C12Glue.vo Gen/BitbaseDump.vo
Props/Properties_C12.vio: Props/Properties_C12.v Engine/KPK.vio Engine/Magic.vio Base/NIter.vio Props/C12Tables.vio Props/C12Defs.vio Props/C12Glue.vio Gen/BitbaseDump.vio
Props/Properties_C12.vos Props/Properties_C12.vok Props/Properties_C12.required_vos: Props/Properties_C12.v Engine/KPK.vos Engine/Magic.vos Base/NIter.vos Props/C12Tables.vos Props/C12Defs.vos Props/C12Glue.vos Gen/BitbaseDump.vos
Props/Properties_C13.vo Props/Properties_C13.glob Props/Properties_C13.v.beautified Props/Properties_C13.required_vo: Props/Properties_C13.v Chess/Rules.vo Engine/KPK.vo Engine/EndgameModel.vo Engine/EndgameProofs.vo
Props/Properties_C13.vio: Props/Properties_C13.v Chess/Rules.vio Engine/KPK.vio Engine/EndgameModel.vio Engine/EndgameProofs.vio
Props/Properties_C13.vos Props/Properties_C13.vok Props/Properties_C13.required_vos: Props/Properties_C13.v Chess/Rules.vos Engine/KPK.vos Engine/EndgameModel.vos Engine/EndgameProofs.vos
Props/Properties_C14.vo Props/Properties_C14.glob Props/Properties_C14.v.beautified Props/Properties_C14.required_vo: Props/Properties_C14.v Chess/Rules.vo Gen/Consts.vo Engine/EvalCache.vo Engine/EvalCacheProofs.vo Engine/EndgameModel.vo Engine/EndgameProofs.vo
Props/Properties_C14.vio: Props/Properties_C14.v Chess/Rules.vio Gen/Consts.vio Engine/EvalCache.vio Engine/EvalCacheProofs.vio Engine/EndgameModel.vio Engine/EndgameProofs.vio
Props/Properties_C14.vos Props/Properties_C14.vok Props/Properties_C14.required_vos: Props/Properties_C14.v Chess/Rules.vos Gen/Consts.vos Engine/EvalCache.vos Engine/EvalCacheProofs.vos Engine/EndgameModel.vos Engine/EndgameProofs.vos
Props/Properties_C15.vo Props/Properties_C15.glob Props/Properties_C15.v.beautified Props/Properties_C15.required_vo: Props/Properties_C15.v Chess/Rules.vo Engine/Classify.vo Engine/RepAbs.vo Engine/RepRefineLegal.vo Engine/ClassifyProofs.vo
Props/Properties_C15.vio: Props/Properties_C15.v Chess/Rules.vio Engine/Classify.vio Engine/RepAbs.vio Engine/RepRefineLegal.vio Engine/ClassifyProofs.vio
Props/Properties_C15.vos Props/Properties_C15.vok Props/Properties_C15.required_vos: Props/Properties_C15.v Chess/Rules.vos Engine/Classify.vos Engine/RepAbs.vos Engine/RepRefineLegal.vos Engine/ClassifyProofs.vos
Props/Properties_C16.vo Props/Properties_C16.glob Props/Properties_C16.v.beautified Props/Properties_C16.required_vo: Props/Properties_C16.v Engine/Encoding.vo Engine/EncodingProofs.vo Chess/Rules.vo Chess/Fen.vo Chess/TextProofs.vo Engine/UciSession.vo Chess/FenProofs.vo
Props/Properties_C16.vio: Props/Properties_C16.v Engine/Encoding.vio Engine/EncodingProofs.vio Chess/Rules.vio Chess/Fen.vio Chess/TextProofs.vio Engine/UciSession.vio Chess/FenProofs.vio
Props/Properties_C16.vos Props/Properties_C16.vok Props/Properties_C16.required_vos: Props/Properties_C16.v Engine/Encoding.vos Engine/EncodingProofs.vos Chess/Rules.vos Chess/Fen.vos Chess/TextProofs.vos Engine/UciSession.vos Chess/FenProofs.vos
Props/Properties_C17.vo Props/Properties_C17.glob Props/Properties_C17.v.beautified Props/Properties_C17.required_vo: Props/Properties_C17.v Chess/Rules.vo Chess/San.vo Chess/SanProofs.vo
Props/Properties_C17.vio: Props/Properties_C17.v Chess/Rules.vio Chess/San.vio Chess/SanProofs.vio
Props/Properties_C17.vos Props/Properties_C17.vok Props/Properties_C17.required_vos: Props/Properties_C17.v Chess/Rules.vos Chess/San.vos Chess/SanProofs.vos
Props/Properties_C18.vo Props/Properties_C18.glob Props/Properties_C18.v.beautified Props/Properties_C18.required_vo: Props/Properties_C18.v Engine/Polyglot.vo Engine/PolyglotInst.vo Chess/Fen.vo Golden/Random64.vo Gen/PolyglotData.vo Engine/Magic.vo Engine/PolyglotProofs.vo Engine/RepAbs.vo Chess/Rules.vo Base/NIter.vo
Props/Properties_C18.vio: Props/Properties_C18.v Engine/Polyglot.vio Engine/PolyglotInst.vio Chess/Fen.vio Golden/Random64.vio Gen/PolyglotData.vio Engine/Magic.vio Engine/PolyglotProofs.vio Engine/RepAbs.vio Chess/Rules.vio Base/NIter.vio
Props/Properties_C18.vos Props/Properties_C18.vok Props/Properties_C18.required_vos: Props/Properties_C18.v Engine/Polyglot.vos Engine/PolyglotInst.vos Chess/Fen.vos Golden/Random64.vos Gen/PolyglotData.vos Engine/Magic.vos Engine/PolyglotProofs.vos Engine/RepAbs.vos Chess/Rules.vos Base/NIter.vos
Props/Properties_C19.vo Props/Properties_C19.glob Props/Properties_C19.v.beautified Props/Properties_C19.required_vo: Props/Properties_C19.v Engine/Book.vo Engine/BookProofs.vo
Props/Properties_C19.vio: Props/Properties_C19.v Engine/Book.vio Engine/BookProofs.vio
Props/Properties_C19.vos Props/Properties_C19.vok Props/Properties_C19.required_vos: Props/Properties_C19.v Engine/Book.vos Engine/BookProofs.vos
Props/Properties_C20.vo Props/Properties_C20.glob Props/Properties_C20.v.beautified Props/Properties_C20.required_vo: Props/Properties_C20.v Engine/TimeMgr.vo Engine/TimeMgrProofs.vo
Props/Properties_C20.vio: Props/Properties_C20.v Engine/TimeMgr.vio Engine/TimeMgrProofs.vio
Props/Properties_C20.vos Props/Properties_C20.vok Props/Properties_C20.required_vos: Props/Properties_C20.v Engine/TimeMgr.vos Engine/TimeMgrProofs.vos
