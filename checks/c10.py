"""C10  No well-formed session corrupts memory (index bounds vs extracted extents + sanitizer sessions)."""
import concurrent.futures
import gen
import layout
import posgen
from searchlib import *
from ucisession import run_script
from vlib import *

LEVEL = "proof"

SAN_ENV = {"ASAN_OPTIONS": "detect_leaks=0:abort_on_error=0:allocator_may_return_null=1", "UBSAN_OPTIONS": "print_stacktrace=1:halt_on_error=1"}
P218 = "R6R/3Q4/1Q4Q1/4Q3/2Q4Q/Q4Q2/pp1Q4/kBNN1KB1 w - - 0 1"
MANY = ["r2q1rk1/pp2bppp/2n2n2/8/Q1Q1Q3/2NBBN2/PP3PPP/3RR1K1 w - - 0 1", "3Q4/1Q4Q1/4Q3/2Q4R/Q4Q2/3Q4/1Q4Rp/1K1BBNNk w - - 0 1",
        "q3k2q/8/2Q1Q3/8/1Q3Q2/8/3Q4/Q3K2Q w - - 0 1", "k7/8/1r1q1r1q/b1q1n1q1/1Q1N1Q1B/Q1R1Q1R1/8/7K w - - 0 1"]
TEN = ["NNNNk3/NNNN4/NN6/8/8/8/8/4K3 w - - 0 1", "QQQQ4/QQQQ4/Q7/8/8/8/7k/4K3 b - - 0 1", "QQQQ4/QQQQ4/Q7/8/8/8/7k/4K3 w - - 0 1",
       "4k3/8/8/8/8/bb6/bbbb4/bbbb2K1 w - - 0 1", "rrrr4/rrrr4/rr6/7k/8/8/8/4K3 w - - 0 1", "4k3/8/8/8/8/8/nnnnn3/nnnnn1K1 b - - 0 1"]
INSTANT = ["8/8/8/4k3/8/4K3/8/8 w - - 0 1", "k7/p7/P7/8/8/8/8/K7 w - - 0 1", "7k/7p/7P/8/8/p7/P7/K7 b - - 0 1"]


def sanitizer_report(err):
    for pat in (r"runtime error: .*", r"ERROR: AddressSanitizer: .*", r"SUMMARY: .*Sanitizer.*"):
        m = re.search(pat, err)
        if m:
            return m.group(0)[:300]
    return None


def run(ctx):
    gen.gen(["consts", "layout"])
    facts, missing = layout.gen_layout_v()
    ok, failed, out = ctx.prove("Props/Properties_C10")
    model = model_driver()
    q = ctx.tier == "quick"
    rng = ctx.rng
    nviol = 0
    # scripted positions must be inside the property (valid, at least one legal move)
    def playable(fs):
        fs = posgen.filter_valid(model, fs)
        rc_, r_, e_ = run_lines(model, ["legal " + f for f in fs])
        return [f for f, r in zip(fs, r_) if (r or "0").split()[0] != "0"]
    many, ten, instant = playable(MANY), playable(TEN), playable(INSTANT)
    ctx.notes["scripted_positions"] = {"many_moves": len(many), "ten_of_a_kind": len(ten), "instant": len(instant)}
    exe = engine_binary("asan")
    drv = harness("search_driver", flavor="asan")
    # ---- process-level sessions on the ASan+UBSan build of the real binary ----
    long_games = posgen.long_shuffle_games(rng, 3 if q else 30, max_segments=16)
    shuffle = ("g1f3 g8f6 f3g1 f6g8 " * 260).split()          # 1040 plies: beyond the old 800-entry history
    scripts = []
    scripts.append(("every command", ["uci", "isready", "ucinewgame", "position startpos moves e2e4 e7e5", "printboard", "hash", "perft 2", "moves g1f3",
                                      "staticeval", "go depth 3", "setoption name Polyglot Sample value best", "setoption name Polyglot Book value /nonexistent/book.bin",
                                      "go depth 2", "setoption name Polyglot Book value", "setoption name Logfile value", "ponderhit", "stop", "isready"]))
    scripts.append(("game beyond 800 plies", ["position startpos moves " + " ".join(shuffle), "go depth 2", "printboard", "position startpos moves " + " ".join(shuffle[:1000]), "go movetime 20"]))
    # every limit shape at the long-game / high-move-number boundary (the clock branch is the only caller of the time manager)
    CLOCKED = ["go wtime 300 btime 300", "go wtime 400 btime 400 movestogo 1", "go wtime 400 btime 400 winc 50 binc 50 movestogo 200",
               "go wtime 200 btime 200 winc 1000 binc 1000", "go nodes 3000", "go movetime 15"]
    scripts.append(("game beyond 800 plies, clocked go", ["position startpos moves " + " ".join(shuffle[:1036])] + CLOCKED))
    scripts.append(("game of 806 plies, clocked go", ["position startpos moves " + " ".join(shuffle[:806])] + CLOCKED[:3]))
    for fm in (403, 450, 1000, 3000, 5900):
        for stm in "wb":
            scripts.append(("FEN with full-move number %d, clocked go" % fm,
                            ["position fen r1bqkbnr/pppp1ppp/2n5/4p3/4P3/5N2/PPPP1PPP/RNBQKB1R %s KQkq - 2 %d" % (stm, fm)] + CLOCKED[:4] + ["position fen 8/8/8/4k3/8/4K3/8/8 %s - - 0 %d" % (stm, fm), CLOCKED[0], CLOCKED[1]]))
    for f, ms in long_games:
        scripts.append(("long game", ["position startpos moves " + " ".join(ms), "go depth 3", rng.choice(CLOCKED), "isready"]))
    scripts.append(("depth above the internal maximum", sum([["position fen " + f, "go depth %d" % d] for f in instant for d in (40, 41, 60, 1000)], [])))
    scripts.append(("218 legal moves", ["position fen " + P218, "go depth 2", "go depth 1 searchmoves a3a2 h8h1 d7d8", "perft 1", "staticeval"]))
    for f in many:
        scripts.append((">= 64 legal moves, depth 5 (node-limited)", ["position fen " + f, "go depth 5 nodes 150000", "go depth 4 nodes 60000"]))
    for f in ten:
        scripts.append(("ten pieces of one kind", ["position fen " + f, "go depth 3 nodes 100000", "perft 2"]))
    scripts.append(("ucinewgame cycles", sum([["ucinewgame", "position startpos moves e2e4", "go depth 2", "position fen 8/8/8/4k3/8/4K3/8/8 w - - 0 1", "go depth 3"] for _ in range(8 if q else 50)], [])))
    # all 218 moves as searchmoves
    rc, l218, err = run_lines(model, ["legal " + P218])
    scripts.append(("searchmoves with 218 moves", ["position fen " + P218, "go depth 1 searchmoves " + " ".join((l218[0] or "").split()[1:])]))
    with concurrent.futures.ThreadPoolExecutor(max_workers=NPROC) as ex:
        results = list(ex.map(lambda s: run_script(exe, s[1], env=SAN_ENV, go_timeout=300), scripts))
    nsess = 0
    ncmd = 0
    for (name, script), r in zip(scripts, results):
        nsess += 1
        ncmd += len(script)
        rep = sanitizer_report(r["stderr"])
        if rep or r["rc"] not in (0,) or r["missing_bestmove"]:
            nviol += 1
            if nviol <= 5:
                what = rep or ("exit status %s" % r["rc"] if r["rc"] != 0 else "no bestmove for: %s" % r["missing_bestmove"][:2])
                ctx.violation("sanitizer session '%s' failed: %s" % (name, what),
                              {"session": [c[:300] for c in script], "stderr": r["stderr"][-3000:], "rc": r["rc"], "log_tail": r["log"][-15:]}, key="c10:uci:" + name)
    # ---- quit while a search is running (GUIs do that): the process must end cleanly - no sanitizer report from the search thread
    #      touching objects the exiting main thread has destroyed ----
    import subprocess
    import time as _time

    def quit_while_searching(args):
        fen, go, delay = args
        p_ = subprocess.Popen([exe], stdin=subprocess.PIPE, stdout=subprocess.PIPE, stderr=subprocess.PIPE, env=dict(os.environ, **SAN_ENV))
        try:
            p_.stdin.write(("position fen %s\n%s\n" % (fen, go)).encode())
            p_.stdin.flush()
            _time.sleep(delay)
            p_.stdin.write(b"quit\n")
            p_.stdin.flush()
            o_, e_ = p_.communicate(timeout=60)
            return p_.returncode, e_.decode("utf8", "replace")
        except subprocess.TimeoutExpired:
            p_.kill()
            return 124, "timeout after quit"
        except OSError as ex_:
            return 0, ""
    # the window is a race between the exiting main thread and the still-unwinding search thread: many sessions, heavily
    # oversubscribed (64 at a time on 16 cores), with the delay swept over 50..250 ms
    nqs = 480 if q else 3000
    qjobs = [([posgen.START, posgen.CLASSIC[1]][i % 2], ("go infinite", "go depth 30", "go movetime 5000")[i % 3], 0.05 + 0.01 * (i % 20)) for i in range(nqs)]
    with concurrent.futures.ThreadPoolExecutor(max_workers=64) as ex:
        qres = list(ex.map(quit_while_searching, qjobs))
    nq = 0
    for (f, g, d), (rc_, err_) in zip(qjobs, qres):
        nq += 1
        rep = sanitizer_report(err_)
        if rep or rc_ not in (0,):
            nviol += 1
            if nviol <= 6:
                ctx.violation("quit while searching ('%s', quit after %.2f s, position '%s'): %s" % (g, d, f, rep or "exit status %s" % rc_),
                              {"session": ["position fen " + f, g, "(wait %.2f s)" % d, "quit"], "stderr": err_[-3000:], "rc": rc_}, key="c10:quit:%s:%s" % (g, f))
    ctx.notes["quit_while_searching_sessions"] = nq
    # ---- in-process searches on the sanitizer build: generated positions, all limit shapes, poisoned tables ----
    fens = posgen.valid_positions(model, rng, 120 if q else 1500, extra=posgen.CLASSIC + many + ten)
    rc, res, err = run_lines(model, ["legal " + f for f in fens], shards=NPROC)
    fens = [f for f, r in zip(fens, res) if (r or "0").split()[0] != "0"]
    sessions = []
    for _ in range(40 if q else 600):
        lines = []
        for j in range(rng.randrange(1, 4)):
            f = rng.choice(fens)
            lines.append(rng.choice(["epoch", "new", "poison %d 100 %s |" % (rng.randrange(1 << 30), f)]))
            lines.append("go %s | | %s" % (f, rng.choice(["depth 1", "depth 2", "depth 3 nodes 50000", "depth 4 nodes 50000", "movetime 5", "nodes 2000",
                                                            "depth 3 @stopat=%d" % rng.randrange(0, 2000), "infinite @stopat=%d" % rng.randrange(0, 5000)])))
        sessions.append(lines)
    results2, crashes = run_sessions(drv, sessions, env=dict(os.environ, **SAN_ENV), timeout=900)
    ngo = sum(1 for s in sessions for l in s if l.startswith("go"))
    for (si, rc_, err_) in crashes[:4]:
        nviol += 1
        ctx.violation("in-process search on the sanitizer build died (rc=%d): %s" % (rc_, sanitizer_report(err_) or err_[-300:]),
                      {"session": sessions[si], "stderr": err_[-3000:]}, key="c10:drv:%d" % si)
    maxply = 0
    for res in results2:
        for r in res or []:
            g = parse_go(r)
            if g:
                maxply = max(maxply, g.get("maxply", 0))
    ctx.notes["max_ply_reached"] = maxply
    ctx.notes["layout_facts"] = facts
    ctx.cov["evaluations"] = ncmd + ngo
    ctx.cov["distinct_nontrivial"] = nsess + len(sessions)
    ctx.sample({"session": scripts[0][0], "commands": scripts[0][1][:8]})
    ctx.sample({"session": scripts[3][0], "commands": scripts[3][1][:6]})
    ctx.cov["rule"] = ("%d UCI sessions (%d commands) on the ASan+UBSan build of the real binary: every UCI command, games of 1040 and several hundred plies (depth-, time-, clock-, movestogo- and node-limited go after them), FENs with full-move numbers 403..5900 followed by clocked go, go depth "
                       "40/41/60/1000, the 218-move position (search, searchmoves with 3 and with all 218 moves, perft, staticeval), positions with >= 64 legal moves at "
                       "depth 5, ten pieces of one kind, ucinewgame cycles, book option set/cleared; %d in-process sessions (%d searches, poisoned tables, stops after k "
                       "visits) on the sanitizer build.  A sanitizer report, a non-zero exit or a missing bestmove is a violation.  Extents of every fixed-size buffer are "
                       "re-extracted (dumper + clang AST) and the index theorems re-checked against them." % (nsess, ncmd, len(sessions), ngo))
    if missing:
        nviol += 1
        ctx.violation("translator anchors not found in the working tree: %s" % ", ".join(missing), {"anchors": missing, "facts": facts}, no_input=True)
    if not ok and nviol == 0:
        ctx.violation("Coq obligations for C10 no longer check (%s) and no sanitizer session failed: a fixed-size buffer is no longer shown to be large enough" % ", ".join(failed),
                      {"theorem_files": failed, "coq_output": out[-3000:], "layout": facts}, no_input=True)
    ctx.cov["trusted_base"] += ["Coq 8.16.1 kernel", "translators: harness/dumper.cpp (sizeof / type traits computed by the compiler) and tools/layout.py (clang 14 JSON AST)",
                                "g++ 12 AddressSanitizer + UndefinedBehaviorSanitizer runtimes",
                                "memory safety of code that is not modelled (iostream, std::regex, std::map, thread teardown) rests on the sanitizer sessions only",
                                "the bound 218 on the number of legal moves is not proved here",
                                "search-stack residue: slot index 80 is reachable only after a 40-ply main line followed by 39 consecutive capture/evasion plies (stated hypothesis of C10_stack_quiescence_partial)"]
