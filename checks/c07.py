"""C07  Check, mate, stalemate and draw predicates agree with the game history."""
import posgen
from corr import *
from vlib import *

LEVEL = "proof"


def run(ctx):
    ok, failed, out = ctx.prove("Props/Properties_C07")
    model = model_driver()
    impl = harness("impl_driver")
    q = ctx.tier == "quick"
    fens = posgen.valid_positions(model, ctx.rng, 1200 if q else 15000, extra=posgen.CLASSIC)
    ng = 100 if q else 2000
    games = posgen.playouts(model, ctx.rng, [posgen.START] * ng, 140, bias=3)
    # sparse positions: shuffles produce repetitions, run-downs to bare kings / single minors, rule-50 crossings
    sparse = [f for f in fens if sum(ch.isalpha() for ch in f.split()[0]) <= 5]
    games += posgen.playouts(model, ctx.rng, sparse[: (150 if q else 2500)], 160, bias=0)
    games += posgen.playouts(model, ctx.rng, sparse[: (100 if q else 1500)], 120, bias=9)
    games += posgen.playouts(model, ctx.rng, fens, 2)
    # explicit repetition scripts
    rep = "g1f3 g8f6 f3g1 f6g8 " * 3
    games.append((posgen.START, rep.split()))
    games.append((posgen.START, ("e2e4 e7e5 " + "e1e2 e8e7 e2e1 e7e8 " * 3).split()))
    games.append(("4k3/8/8/8/8/8/8/R3K3 w Q - 0 1", ("a1a2 e8e7 a2a1 e7e8 " * 3).split()))
    # scripted games of several hundred plies: pawn steps interleaved with shuffle cycles, so repetitions occur at every game length
    longg = posgen.long_shuffle_games(ctx.rng, 25 if q else 400)
    games += longg
    ctx.notes['long_games'] = {'count': len(longg), 'max_plies': max(len(m) for _, m in longg)}
    hist = [0] * 7

    def tally(x):
        if len(x) == 7:
            for i, ch in enumerate(x):
                hist[i] += ch == "1"
    n1, v1 = diff_games(ctx, "g_preds", games, "predicates (check, mate, stalemate, repeated, threefold, rule50, insufficient material) differ from the history spec",
                        impl, model, nontrivial=lambda x: x != "0000000", tally=tally)
    # the same answers asked the way a search asks them: make / ask / unmake / make a SIBLING / ask on one Position object, where one of the
    # siblings returns to an earlier position of the game and the other does not (a memo keyed by the length of the history would be wrong);
    # plus random nested make / unmake / null-move scripts.  The model walks the representation (its key history), whose answers the theorem
    # C07_repetition_and_fifty_move_answers_agree_with_the_history relates to the rules.
    rev = lambda m: m[2:4] + m[:2]
    roots = (sparse + fens)[: (120 if q else 2000)]
    rcl, l0, el = run_lines(model, ["legal " + f for f in roots], shards=NPROC)
    c1 = []
    for f, l in zip(roots, l0):
        ms = [m for m in (l or "0").split()[1:] if len(m) == 4]
        ctx.rng.shuffle(ms)
        for a in ms[:3]:
            c1.append((f, a))
    rcl, l1, el = run_lines(model, ["g_legal %s | %s" % (f, a) for f, a in c1], shards=NPROC)
    c2 = []
    for (f, a), r in zip(c1, l1):
        ls = (r or "").split(" ; ")
        if len(ls) < 2:
            continue
        ob = [m for m in ls[1].split()[1:] if len(m) == 4]
        ctx.rng.shuffle(ob)
        for b in ob[:2]:
            c2.append((f, [a, b, rev(a)]))
    rcl, l2, el = run_lines(model, ["g_legal %s | %s" % (f, " ".join(ms)) for f, ms in c2], shards=NPROC)
    wgames = []
    for (f, ms), r in zip(c2, l2):
        ls = (r or "").split(" ; ")
        if len(ls) < 4 or "BAD" in (r or ""):
            continue
        if ms[2] not in ls[2].split()[1:]:
            continue                      # the reverse of the first move is not legal there
        last = ls[3].split()[1:]
        back = rev(ms[1])
        sib = [m for m in last if m != back and len(m) == 4]
        if back in last and sib:
            y = ctx.rng.choice(sib)
            z = ctx.rng.choice(sib)
            wgames.append((f, ms + [back, "u", y, "u", back, "u", z, "u", y, "u", back, ms[0], "u", "u", z]))
    wroots = [g_[0] for g_ in games if len(g_[1]) > 20][: (40 if q else 600)]
    rcw, wscripts, ew = run_lines(model, ["walkgen %d %d %d %s" % (ctx.rng.randrange(1 << 30), 60 if q else 120, 8, f_) for f_ in wroots], shards=NPROC)
    wgames += [(f_, (s_ or "").split()) for f_, s_ in zip(wroots, wscripts) if s_]
    nw, vw = diff_games(ctx, "walk_preds", wgames, "predicates asked after a make / unmake / sibling-move script on one object differ from the model of the key history", impl, model)
    v1 += vw
    # ... and asked only after a move was MADE (never at the parent between two siblings), which is how the search asks
    nw2, vw2 = diff_games(ctx, "walk_preds_do", wgames, "predicates asked after every made move of a make / unmake / sibling script (not after unmake) differ from the model of the key history", impl, model)
    v1 += vw2
    nw += nw2
    ctx.notes["sibling_and_walk_script_observations"] = nw
    ctx.notes["positions_with_predicate_true"] = dict(zip(["in_check", "checkmate", "stalemate", "repeated", "threefold", "rule50", "insufficient_material"], hist))
    ctx.cov["rule"] = ("%d model-driven games (openings, sparse endings with shuffles -> repetitions / clock >= 100 / material run-downs, "
                       "forcing play -> mates and stalemates, explicit 2/3-fold scripts incl. rights lost in between); after every ply the seven "
                       "answers of the engine must equal the rules-level history spec (positions compared by placement, side, rights, ep). "
                       "non-trivial = at least one predicate true; distinct by observation." % len(games))
    if not ok and v1 == 0:
        ctx.violation("Coq obligations for C07 no longer check (%s); no failing game found" % ", ".join(failed),
                      {"theorem_files": failed, "coq_output": out[-3000:]}, no_input=True)
    ctx.cov["trusted_base"] += ["Coq 8.16.1 kernel", "extraction + drivers", "no 64-bit key collision among the positions of one game (hypothesis of the theorem)"]
    ctx.assumptions += ["clock < 256", "game length within the history capacity"]
