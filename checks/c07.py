"""C07  Check, mate, stalemate and draw predicates agree with the game history."""
import posgen
from corr import *
from vlib import *

LEVEL = "proof"


def run(ctx):
    ok, failed, out = ctx.prove("Props/Properties_C07")
    model = model_driver()
    impl = harness("impl_driver")
    q = ctx.tier == "quick"
    fens = posgen.valid_positions(model, ctx.rng, 1200 if q else 15000, extra=posgen.CLASSIC)
    ng = 100 if q else 2000
    games = posgen.playouts(model, ctx.rng, [posgen.START] * ng, 140, bias=3)
    # sparse positions: shuffles produce repetitions, run-downs to bare kings / single minors, rule-50 crossings
    sparse = [f for f in fens if sum(ch.isalpha() for ch in f.split()[0]) <= 5]
    games += posgen.playouts(model, ctx.rng, sparse[: (150 if q else 2500)], 160, bias=0)
    games += posgen.playouts(model, ctx.rng, sparse[: (100 if q else 1500)], 120, bias=9)
    games += posgen.playouts(model, ctx.rng, fens, 2)
    # explicit repetition scripts
    rep = "g1f3 g8f6 f3g1 f6g8 " * 3
    games.append((posgen.START, rep.split()))
    games.append((posgen.START, ("e2e4 e7e5 " + "e1e2 e8e7 e2e1 e7e8 " * 3).split()))
    games.append(("4k3/8/8/8/8/8/8/R3K3 w Q - 0 1", ("a1a2 e8e7 a2a1 e7e8 " * 3).split()))
    # scripted games of several hundred plies: pawn steps interleaved with shuffle cycles, so repetitions occur at every game length
    longg = posgen.long_shuffle_games(ctx.rng, 25 if q else 400)
    games += longg
    ctx.notes['long_games'] = {'count': len(longg), 'max_plies': max(len(m) for _, m in longg)}
    hist = [0] * 7

    def tally(x):
        if len(x) == 7:
            for i, ch in enumerate(x):
                hist[i] += ch == "1"
    n1, v1 = diff_games(ctx, "g_preds", games, "predicates (check, mate, stalemate, repeated, threefold, rule50, insufficient material) differ from the history spec",
                        impl, model, nontrivial=lambda x: x != "0000000", tally=tally)
    ctx.notes["positions_with_predicate_true"] = dict(zip(["in_check", "checkmate", "stalemate", "repeated", "threefold", "rule50", "insufficient_material"], hist))
    ctx.cov["rule"] = ("%d model-driven games (openings, sparse endings with shuffles -> repetitions / clock >= 100 / material run-downs, "
                       "forcing play -> mates and stalemates, explicit 2/3-fold scripts incl. rights lost in between); after every ply the seven "
                       "answers of the engine must equal the rules-level history spec (positions compared by placement, side, rights, ep). "
                       "non-trivial = at least one predicate true; distinct by observation." % len(games))
    if not ok and v1 == 0:
        ctx.violation("Coq obligations for C07 no longer check (%s); no failing game found" % ", ".join(failed),
                      {"theorem_files": failed, "coq_output": out[-3000:]}, no_input=True)
    ctx.cov["trusted_base"] += ["Coq 8.16.1 kernel", "extraction + drivers", "no 64-bit key collision among the positions of one game (hypothesis of the theorem)"]
    ctx.assumptions += ["clock < 256", "game length within the history capacity"]
