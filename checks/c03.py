"""C03  Unmaking a move restores the position exactly."""
import re
import posgen
from corr import *
from vlib import *

LEVEL = "proof"


def canon(obs):
    """Observation with each piece list sorted (swap-remove legitimately permutes the lists)."""
    def srt(m):
        inner = m.group(1)
        if not inner:
            return "[]"
        return "[" + ",".join(sorted(inner.split(","), key=int)) + "]"
    return re.sub(r"\[([0-9,]*)\]", srt, obs)


def run(ctx):
    ok, failed, out = ctx.prove("Props/Properties_C03")
    model = model_driver()
    impl = harness("impl_driver")
    q = ctx.tier == "quick"
    fens = posgen.valid_positions(model, ctx.rng, 600 if q else 8000, extra=posgen.CLASSIC)
    roots = fens + [posgen.START] * 20
    # positions deeper in games as roots too
    for f, ms in posgen.playouts(model, ctx.rng, [posgen.START] * (40 if q else 400), 40):
        roots.append((f, ms))
    roots2 = []
    gl = ["g_fen %s | %s" % (r[0], " ".join(r[1])) for r in roots if isinstance(r, tuple)]
    rc, res, err = run_lines(model, gl, shards=NPROC)
    for r in res:
        roots2.append((r or "").split(" ; ")[-1])
    roots = [r for r in roots if not isinstance(r, tuple)] + [r for r in roots2 if r and not r.startswith("BAD")]
    lines = ["walkgen %d %d %d %s" % (ctx.rng.randrange(1 << 30), 60 if q else 150, ctx.rng.choice([3, 6, 10]), f) for f in roots]
    rc, scripts, err = run_lines(model, lines, shards=NPROC)
    games = [(f, (s or "").split()) for f, s in zip(roots, scripts)]
    combos = posgen.filter_valid(model, posgen.combo_positions(ctx.rng, 60 if q else 600))
    games += posgen.all_moves_games(model, combos, tail=('u',))
    ctx.notes['combo_template_positions'] = len(combos)
    # (1) the implementation against the algorithmic model, every field after every step
    n1, v1 = diff_games(ctx, "walk", games, "Position after a do/undo step differs from the algorithmic model", impl, model)
    # (2) the property itself on the implementation: every observable after undo == before do
    cases = ["walkx %s | %s" % (f, " ".join(toks)) for f, toks in games]
    rc1, o1, e1 = run_lines(impl, cases, shards=NPROC)
    pairs = 0
    nontriv = set()
    v2 = 0
    for (f, toks), o in zip(games, o1):
        if o is None:
            ctx.violation("walk crashed from %s" % f, {"fen": f, "script": toks, "stderr": e1[-1000:]}, key="c03crash:" + f)
            v2 += 1
            continue
        obs = [canon(x) for x in o.split(" ; ")]
        stack = []
        for i, t in enumerate(toks):
            if i + 1 >= len(obs):
                break
            if t in ("u", "un"):
                j, tok = stack.pop()
                pairs += 1
                if tok == "n" or len(tok) >= 4:
                    nontriv.add((obs[j], tok))
                if obs[i + 1] != obs[j] and v2 < 3:
                    v2 += 1
                    ctx.violation("undo of '%s' does not restore the position: from '%s' script '%s': before [%s] after [%s]"
                                  % (tok, f, " ".join(toks[:i + 1]), obs[j][:200], obs[i + 1][:200]),
                                  {"fen": f, "script": toks[:i + 1], "before": obs[j], "after": obs[i + 1]},
                                  key="c03:%s:%s" % (f, " ".join(toks[:i + 1])))
            else:
                stack.append((i, t))
    ctx.cov["evaluations"] += pairs
    ctx.cov["distinct_nontrivial"] += len(nontriv)
    ctx.notes["do_undo_pairs"] = pairs
    ctx.cov["rule"] = ("%d random nested make/unmake scripts (depth <= 10, null moves when not in check, biased to captures/castling/"
                       "promotions) from constructed valid positions and positions inside games: (1) every Position field after every step "
                       "equals the algorithmic model; (2) on the implementation alone, every observable (all fields with piece lists as sets, "
                       "keys, history, draw predicates, legal move list, static evaluation by a fresh and a long-lived evaluator, FEN) after an "
                       "undo equals the snapshot before the matching do.  distinct = distinct (position, move) pairs." % len(games))
    if not ok and v1 + v2 == 0:
        ctx.violation("Coq obligations for C03 no longer check (%s); no failing script found" % ", ".join(failed),
                      {"theorem_files": failed, "coq_output": out[-3000:]}, no_input=True)
    ctx.cov["trusted_base"] += ["Coq 8.16.1 kernel", "extraction + drivers"]
