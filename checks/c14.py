"""C14  Static evaluation is a pure, bounded function of the position."""
import gen
import posgen
from corr import *
from vlib import *

LEVEL = "proof"
WIN_IN_MAX_DEPTH = 639960


def us(f):
    return f.replace(" ", "_")


def variants(rng, fen, n):
    """positions with the SAME pawn structure and kings but different other pieces (same pawn key, different rest)"""
    pl, stm, rights, ep, clock, full = fen.split()
    board = {}
    r, f = 7, 0
    for ch in pl:
        if ch == "/":
            r -= 1
            f = 0
        elif ch.isdigit():
            f += int(ch)
        else:
            board[r * 8 + f] = ch
            f += 1
    out = []
    others = [s for s, pc in board.items() if pc not in "PpKk"]
    for _ in range(n):
        b = dict(board)
        k = rng.randrange(0, len(others) + 1)
        for s in rng.sample(others, k):
            del b[s]
        if rng.random() < 0.5:
            empties = [s for s in range(64) if s not in b]
            if empties:
                b[rng.choice(empties)] = rng.choice("NBRQnbrq")
        out.append(posgen.board_to_fen(b, stm, "", None, 0, 1))
    return out


def run(ctx):
    gen.gen(["consts", "evalconsts", "bitbase"])
    ok, failed, out = ctx.prove("Props/Properties_C14")
    model = model_driver()
    impl = harness("impl_driver")
    q = ctx.tier == "quick"
    rng = ctx.rng
    nviol = 0
    # (1) the table itself: HashMap<uint64_t, Score, 512*512> vs its Coq model on op sequences with slot collisions, key 0, clears
    hcases = []
    for _ in range(150 if q else 3000):
        base = [rng.getrandbits(64) for _ in range(3)] + [0, 1 << 18, 5 << 18]
        toks = []
        for _ in range(rng.randrange(3, 25)):
            k = rng.choice(base)
            if rng.random() < 0.5:
                k = (k & ((1 << 18) - 1)) | (rng.getrandbits(46) << 18)       # same slot, different key
            r = rng.random()
            if r < 0.45:
                toks.append("i:%x:%d:%d" % (k, rng.randrange(-500, 500), rng.randrange(-500, 500)))
            elif r < 0.9:
                toks.append("p:%x" % k)
            else:
                toks.append("c")
        toks += ["p:0", "p:%x" % base[0]]
        hcases.append("hm " + " ".join(toks))
    rc1, h1, e1, h2 = both(hcases, impl, model, shards=4)
    hm_unavailable = any((a or "").strip() == "UNAVAILABLE" for a in h1)
    for c, a, b in zip(hcases, h1, h2):
        if hm_unavailable:
            break       # the table no longer maps a key to a plain Score: judged below on the evaluator's observable behaviour
        if a != b:
            nviol += 1
            if nviol <= 3:
                ctx.violation("pawn-table behaviour differs from its model (correspondence 'hm'): %s -> engine [%s] model [%s]" % (c[:200], a, b),
                              {"op": c, "engine": a, "model": b}, key="c14:hm:" + c[:60])
    # (1b) purity with respect to the HISTORY OF THE POSITION OBJECT: after every step of nested make / unmake scripts (captures taken back
    #      permute the piece lists: swap-remove) the object must evaluate like the same position loaded from its FEN
    wroots = posgen.filter_valid(model, [f for _, f in posgen.material_positions(rng, 4 if q else 40)]) + posgen.valid_positions(model, rng, 60 if q else 800, extra=posgen.CLASSIC)
    wl = ["walkgen %d %d %d %s" % (rng.randrange(1 << 30), 40 if q else 100, rng.choice([3, 6, 10]), f) for f in wroots]
    rc, wscripts, err = run_lines(model, wl, shards=NPROC)
    wcases = ["walk_eval %s | %s" % (f, sc) for f, sc in zip(wroots, wscripts) if sc]
    rc, wres, err = run_lines(impl, wcases, shards=NPROC)
    nwalk = 0
    for c, r in zip(wcases, wres):
        for i, pair in enumerate((r or "").split(" ; ")):
            if ":" not in pair:
                continue
            nwalk += 1
            a, b = pair.split(":")
            if a != b:
                nviol += 1
                if nviol <= 4:
                    ctx.violation("evaluation depends on the history of the position object: after %d step(s) of [%s] the object scores %s, the same position loaded from its FEN scores %s"
                                  % (i, c[10:][:300], a, b), {"op": c, "step": i, "object": a, "fresh": b}, key="c14:walk:" + c[:200])
                break
    ctx.notes["walk_eval_steps"] = nwalk
    # (2) purity on the implementation: one long-lived evaluator over sequences (with clears) vs a fresh evaluator per position
    fens = posgen.valid_positions(model, rng, 400 if q else 6000, extra=posgen.CLASSIC)
    mats = posgen.filter_valid(model, [f for _, f in posgen.material_positions(rng, 6 if q else 80)] + posgen.FORTRESS_TEMPLATES + posgen.KBPSKB_TEMPLATES)
    # a pawn structure whose key falls into slot 0 (key = 0 mod 2^18): meet in the middle over pairs of pawns, using the harness's fixed Zobrist values
    singles = []
    for sq in range(8, 56):
        for pc in "Pp":
            b = {4: "K", 60: "k", sq: pc}
            if sq in (4, 60):
                continue
            singles.append(((sq, pc), posgen.board_to_fen(b, "w", "", None, 0, 1)))
    rc, pk, err = run_lines(impl, ["pawnkey " + f for _, f in singles])
    contrib = {k: int(v, 16) for (k, _), v in zip(singles, pk)}
    pairs = {}
    slot0 = None
    items = list(contrib.items())
    for i in range(len(items)):
        for j in range(i + 1, len(items)):
            (s1, p1), k1 = items[i]
            (s2, p2), k2 = items[j]
            if s1 == s2:
                continue
            low = (k1 ^ k2) & ((1 << 18) - 1)
            if low in pairs:
                a, b = pairs[low]
                sqs = {a[0], b[0], s1, s2}
                if len(sqs) == 4:
                    slot0 = [a, b, (s1, p1), (s2, p2)]
                    break
            pairs.setdefault(low, ((s1, p1), (s2, p2)))
        if slot0:
            break
    seqs = []
    if slot0:
        b = {4: "K", 60: "k", 0: "R", 63: "r"}
        for s, pc in slot0:
            b[s] = pc
        fslot0 = posgen.board_to_fen(b, "w", "", None, 0, 1)
        pawnless = ["r3k2r/8/8/8/8/8/8/R2QK2R w - - 0 1", "1n2k1q1/8/8/8/8/8/8/1N2K1Q1 w - - 0 1", "3rk3/8/8/8/8/8/8/2QRK3 b - - 0 1"]
        if posgen.filter_valid(model, [fslot0]):
            seqs.append([fslot0, "c"] + pawnless + [fslot0] + pawnless)
            seqs.append(pawnless + [fslot0, "c", pawnless[0], "c", fslot0, pawnless[1]])
            ctx.notes["slot0_structure"] = fslot0
    for _ in range(60 if q else 900):
        seq = []
        for _ in range(rng.randrange(3, 12)):
            r = rng.random()
            if r < 0.12:
                seq.append("c")
            elif r < 0.55:
                f = rng.choice(fens)
                seq.append(f)
                seq += [v for v in posgen.filter_valid(model, variants(rng, f, 3))]      # same pawn key, other material
            elif r < 0.8:
                seq.append(rng.choice(mats))
            else:
                seq.append(rng.choice(seq) if seq else rng.choice(fens))
        seqs.append(seq)
    # everything the pawn key does NOT cover, varied under one pawn structure: castling-right subsets (per colour, in every order),
    # king squares, side to move - a value cached next to the pawn score must not outlive a change of any of them
    def rights_variants(f):
        p_ = f.split()
        rows = p_[0].split("/")
        avail = ""
        if rows[7][4:5] == "K" or _at(rows[7], 4) == "K":
            avail += ("K" if _at(rows[7], 7) == "R" else "") + ("Q" if _at(rows[7], 0) == "R" else "")
        if _at(rows[0], 4) == "k":
            avail += ("k" if _at(rows[0], 7) == "r" else "") + ("q" if _at(rows[0], 0) == "r" else "")
        outs = []
        for mask in range(1 << len(avail)):
            r_ = "".join(ch for i, ch in enumerate(avail) if mask >> i & 1) or "-"
            outs.append(" ".join([p_[0], p_[1], r_, "-", p_[4], p_[5]]))
        return outs

    def _at(row, col):
        c_ = 0
        for ch in row:
            if ch.isdigit():
                c_ += int(ch)
            else:
                if c_ == col:
                    return ch
                c_ += 1
        return None
    CASTLE_BASES = ["r3k2r/p1ppqpb1/bn2pnp1/3PN3/1p2P3/2N2Q1p/PPPBBPPP/R3K2R w KQkq - 0 1", "r1bqk2r/ppp2ppp/2np1n2/2b1p3/2B1P3/2NP1N2/PPP2PPP/R1BQK2R b KQkq - 0 6",
                    "r3k2r/ppp2ppp/2n5/3pp3/8/2N2N2/PP3PPP/R3K2R w KQkq - 0 1", "r3k2r/1pp2p1p/p5p1/8/8/P5P1/1PP2P1P/R3K2R b KQkq - 0 1",
                    "rn2k2r/pp3ppp/8/8/8/8/PPP3PP/R3K1NR w KQkq - 0 1", "r3k2r/5ppp/8/8/8/8/PPP5/R3K2R w KQkq - 0 1", "r3k2r/ppp5/8/8/8/8/5PPP/R3K2R b KQkq - 0 1"]
    cb = [f for f in fens if f.split()[2] != "-"][: (20 if q else 300)] + CASTLE_BASES
    nrv = 0
    for f in cb:
        vs = posgen.filter_valid(model, rights_variants(f))
        if len(vs) < 2:
            continue
        for _ in range(2 if q else 4):
            order = list(vs)
            rng.shuffle(order)
            seqs.append(order + order[:2])
            nrv += 1
    ctx.notes["castling_rights_variant_sequences"] = nrv
    allf = sorted({f for s in seqs for f in s if f != "c"})
    rc, fresh, err = run_lines(impl, ["eval " + f for f in allf], shards=NPROC)
    freshv = {f: (r or "?").split()[0] for f, r in zip(allf, fresh)}
    rc, sv, err = run_lines(impl, ["evalseq " + " ".join("c" if f == "c" else us(f) for f in s) for s in seqs], shards=NPROC)
    nev = 0
    hits = 0
    maxabs = 0
    for s, r in zip(seqs, sv):
        vals = (r or "").split()
        seen = set()
        for i, (f, v) in enumerate(zip(s, vals)):
            if f == "c":
                seen = set()
                continue
            nev += 1
            if f in seen:
                hits += 1
            seen.add(f)
            if v != freshv[f]:
                nviol += 1
                if nviol <= 6:
                    ctx.violation("evaluation depends on earlier evaluations: after [%s] the position '%s' scores %s, a fresh evaluator gives %s"
                                  % (" ; ".join(x if x == "c" else x.split()[0] for x in s[:i])[-300:], f, v, freshv[f]),
                                  {"sequence": s[:i + 1], "long_lived": v, "fresh": freshv[f]}, key="c14:pure:%s:%d" % (f, i))
    # (3) range: strictly inside the non-mate range
    extreme = ["QQQQk3/QQQQ4/Q7/8/8/8/8/4K3 w - - 0 1".replace("QQQQk3", "QQQQ3k"), "4k3/8/8/8/8/8/qqqqq3/qqqq2K1 w - - 0 1", "RRRRR3/RRRRR3/8/8/8/8/7k/4K3 w - - 0 1",
               "4k3/PPPPPPPP/8/8/8/8/8/4K3 w - - 0 1", "4k3/8/8/8/8/8/pppppppp/4K3 b - - 0 1", "QQQQ3k/QQQQ4/QRRBBNN1/8/8/8/8/4K3 w - - 0 1"]
    extreme = posgen.filter_valid(model, extreme)
    rc, ev, err = run_lines(impl, ["eval " + f for f in extreme])
    allvals = [(f, int(v)) for f, v in freshv.items() if v.lstrip("-").isdigit()] + [(f, int((r or "0").split()[0])) for f, r in zip(extreme, ev)]
    for f, v in allvals:
        maxabs = max(maxabs, abs(v))
        if abs(v) >= WIN_IN_MAX_DEPTH:
            nviol += 1
            ctx.violation("static evaluation %d of '%s' lies in the mate range (|v| >= %d)" % (v, f, WIN_IN_MAX_DEPTH), {"fen": f, "value": v}, key="c14:range:" + f)
    ctx.cov["evaluations"] = nev + len(hcases) + len(allvals)
    ctx.cov["distinct_nontrivial"] = len(allf)
    ctx.notes["evaluations_repeated_within_a_clear_epoch"] = hits
    ctx.notes["max_abs_evaluation"] = maxabs
    ctx.notes["sequences"] = len(seqs)
    ctx.sample({"sequence": [x if x == "c" else x for x in seqs[0][:5]], "long_lived": (sv[0] or "").split()[:5]})
    ctx.sample({"hm": hcases[0][:160], "engine": (h1[0] or "")[:120]})
    ctx.cov["rule"] = ("(1) %d op sequences on the pawn-table type itself (slot collisions, key 0, clears) against the Coq model; (2) %d evaluation sequences on ONE "
                       "long-lived PositionScorer (clears interleaved; families of positions with the same pawn structure and different other material; repeated "
                       "positions; endgame classes; a structure whose key falls into slot 0 followed by clear and pawnless positions) - every value must equal a "
                       "fresh evaluator's; (3) every value (incl. extreme-material positions: 9 queens, 10 rooks, 8 pawns on the 7th) strictly inside the non-mate "
                       "range.  non-trivial = distinct positions evaluated." % (len(hcases), len(seqs)))
    if hm_unavailable and nviol == 0:
        ctx.violation("correspondence 'hm' broken: the pawn table no longer maps a key to a plain Score, so the model of the cache (Engine/EvalCache.v, theorem "
                      "C14_pure) no longer describes the code; no evaluation that depends on earlier evaluations was found",
                      {"correspondence": "hm"}, no_input=True)
    if not ok and nviol == 0:
        ctx.violation("Coq obligations for C14 no longer check (%s); no impure or out-of-range evaluation found" % ", ".join(failed),
                      {"theorem_files": failed, "coq_output": out[-3000:]}, no_input=True)
    ctx.cov["trusted_base"] += ["Coq 8.16.1 kernel", "translator (tables, constants)", "extraction + drivers",
                                "hypotheses of C14_pure: no 64-bit pawn-key collision between structures with different scores; the cached term reads only what the key "
                                "covers (checked by the same-pawn-structure families); key 0 <-> no pawns",
                                "the general evaluator's range is checked on the implementation, not proved"]
