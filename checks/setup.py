"""setup: build everything the checks need from files on disk (offline)."""
import glob
import gen
from vlib import *


def run():
    t0 = time.time()
    gen.gen(list(gen.GEN_KINDS))
    coq_makefile()
    props = sorted(os.path.relpath(p, COQ) + "o" for p in glob.glob(os.path.join(COQ, "Props", "Properties_*.v")))
    ok, out = coq_make(props, timeout=3000)
    if not ok:
        log(out[-3000:])
    model_driver()
    harness("impl_driver")
    log("[setup] done in %.1fs ok=%s" % (time.time() - t0, ok))
    return 0 if ok else 1
