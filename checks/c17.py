"""C17  SAN output is unambiguous and parses back to the same move."""
import os
import posgen
from corr import *
from vlib import *

LEVEL = "proof"


def multi_piece_positions(rng, n):
    """three or more like pieces that can reach one square (same file / same rank / both)."""
    out = []
    for _ in range(n):
        b = {}
        k = rng.choice("QRNB")
        side_w = rng.random() < 0.5
        pc = k if side_w else k.lower()
        tf, tr = rng.randrange(1, 7), rng.randrange(1, 7)
        placed = 0
        tries = 0
        while placed < rng.randrange(3, 6) and tries < 50:
            tries += 1
            if k == "N":
                df, dr = rng.choice([(1, 2), (-1, 2), (1, -2), (-1, -2), (2, 1), (2, -1), (-2, 1), (-2, -1)])
                f, r = tf + df, tr + dr
            else:
                dirs = {"Q": [(0, 1), (1, 0), (0, -1), (-1, 0), (1, 1), (1, -1), (-1, 1), (-1, -1)],
                        "R": [(0, 1), (1, 0), (0, -1), (-1, 0)], "B": [(1, 1), (1, -1), (-1, 1), (-1, -1)]}[k]
                df, dr = rng.choice(dirs)
                d = rng.randrange(1, 7)
                f, r = tf + df * d, tr + dr * d
            if 0 <= f < 8 and 0 <= r < 8 and (f, r) != (tf, tr) and posgen.sq(f, r) not in b:
                b[posgen.sq(f, r)] = pc
                placed += 1
        free = [s for s in range(64) if s not in b and s != posgen.sq(tf, tr)]
        rng.shuffle(free)
        b[free.pop()] = "K"
        b[free.pop()] = "k"
        if rng.random() < 0.5:
            b[posgen.sq(tf, tr)] = rng.choice("pnbrq") if side_w else rng.choice("PNBRQ")
        for _ in range(rng.randrange(0, 4)):
            b[free.pop()] = rng.choice("NBRQnbrq")
        out.append(posgen.board_to_fen(b, "w" if side_w else "b", "", None, 0, 1))
    return out


def run(ctx):
    ok, failed, out = ctx.prove("Props/Properties_C17")
    model = model_driver()
    impl = harness("impl_driver")
    q = ctx.tier == "quick"
    extra = posgen.CLASSIC + ["4k3/8/8/Q7/8/8/8/qN2K2R w K - 0 1", "8/8/8/8/8/7k/p7/7K b - - 0 1",
                              "r3k2r/8/8/8/8/8/8/R3K2R w KQkq - 0 1", "5k2/8/8/8/8/8/8/R3K3 w Q - 0 1", "3k4/8/8/8/8/8/8/R3K3 w Q - 0 1"]
    extra += multi_piece_positions(ctx.rng, 400 if q else 6000)
    fens = posgen.valid_positions(model, ctx.rng, 1800 if q else 30000, extra=extra,
                                  styles=["queens", "queens", "castle", "promo", "pins", "ep", "mid", "sparse"])
    games = [(f, []) for f in fens]
    games += posgen.playouts(model, ctx.rng, [posgen.START] * (40 if q else 600), 80)
    hist = {"moves": 0, "file_disamb": 0, "file_rank_disamb": 0, "castle_suffix": 0, "promo": 0}

    def tally(x):
        for w in x.split():
            parts = w.split(":")
            if len(parts) != 3:
                continue
            s = parts[1]
            hist["moves"] += 1
            core = s.rstrip("+#")
            if core.startswith("O-O"):
                hist["castle_suffix"] += s != core
                continue
            if "=" in core:
                hist["promo"] += 1
                core = core.split("=")[0]
            body = core.replace("x", "")
            if body[0] in "NBRQK":
                extra_len = len(body) - 3
                hist["file_disamb"] += extra_len == 1
                hist["file_rank_disamb"] += extra_len == 2
    n1, v1 = diff_games(ctx, "g_san", games, "SAN text / parse-back differs from the model", impl, model, tally=tally)
    # make / unmake / null-move scripts on ONE Position object, the observer called after EVERY step (caches and lazily updated members
    # must follow the object through every kind of step): compared with the model's value for the position represented
    wroots = [g_[0] for g_ in games][: (24 if q else 800)]
    wl = ["walkgen %d %d %d %s" % (ctx.rng.randrange(1 << 30), 24 if q else 60, ctx.rng.choice([3, 6]), f_) for f_ in wroots]
    rcw, wscripts, ew = run_lines(model, wl, shards=NPROC)
    wgames = [(f_, (s_ or "").split()) for f_, s_ in zip(wroots, wscripts) if s_]
    nw, vw = diff_games(ctx, "walk_san", wgames, "SAN text / parse-back after a make / unmake / null-move script on one object differs from the model", impl, model)
    nw2, vw2 = diff_games(ctx, "walk_san_do", wgames, "the same, observed only after made moves (not after unmake: the way a search asks)", impl, model)
    vw += vw2
    ctx.notes["walk_script_observations"] = nw + nw2
    v1 += vw
    # the property on the implementation's own output: every flag is 1
    cases = ["g_san %s | %s" % (f, " ".join(ms)) for f, ms in games]
    rc1, o1, e1 = run_lines(impl, cases, shards=NPROC)
    v2 = 0
    for (f, ms), o in zip(games, o1):
        for i, obs in enumerate((o or "").split(" ; ")):
            bad = [w for w in obs.split() if w.endswith(":0")]
            if bad and v2 < 3:
                v2 += 1
                ctx.violation("SAN printed by the engine does not parse back to the move: %s after %s from %s" % (bad[:3], " ".join(ms[:i]), f),
                              {"fen": f, "moves": ms[:i], "failing": bad}, key="c17rt:%s:%s" % (f, " ".join(ms[:i])))
    # foreign SAN: lines of the ECO file replayed from the start position, both sides must resolve the same move
    eco = os.path.join(REPO, "tools/regression/scid.eco")
    n3 = 0
    if os.path.exists(eco):
        import re
        txt = open(eco, errors="replace").read()
        lines = re.findall(r'^[A-E]\d\d\S*\s+"[^"]*"\s+([^*]*)\*', txt, flags=re.M)
        seqs = []
        for l in lines[: (300 if q else 5000)]:
            toks = [t for t in re.sub(r"\d+\.", " ", l).split() if t]
            if toks:
                seqs.append(toks)
        # replay with the model to get the positions, then ask both to parse each SAN at its position
        cases = []
        for toks in seqs:
            cases.append("san_line " + " ".join(toks))
        rc, res, err = run_lines(model, cases, shards=NPROC)
        pcs = []
        for toks, r in zip(seqs, res):
            fl = (r or "").split(" ; ")
            for f, t in zip(fl, toks):
                if f and not f.startswith("BAD"):
                    pcs.append("san_parse %s | %s %s %s" % (f, t, t + "+", t.replace("x", "")))
        pcs = sorted(set(pcs))
        rc1, a1, e1, a2 = both(pcs, impl, model)
        for c, x, y in zip(pcs, a1, a2):
            n3 += 1
            if x != y and v2 < 5:
                v2 += 1
                ctx.violation("parse_san differs from the model on foreign SAN: %s -> engine [%s] model [%s]" % (c, x, y), {"op": c, "engine": x, "model": y}, key="c17foreign:" + c)
        ctx.cov["evaluations"] += n3
    ctx.notes["san_distribution"] = hist
    ctx.notes["foreign_san_cases"] = n3
    ctx.cov["rule"] = ("every legal move of %d positions (templates with 3-5 like pieces reaching one square, castling with check/mate, "
                       "promotions, the 218-move position, corpus) and along %d games: engine SAN text = model SAN text, engine parse-back flag = 1 "
                       "(the property on the implementation itself), plus %d foreign SAN strings from scid.eco (and mutated variants) resolved by both "
                       "parsers.  distinct = distinct observation strings." % (len(fens), len(games) - len(fens), n3))
    if not ok and v1 + v2 == 0:
        ctx.violation("Coq obligations for C17 no longer check (%s); no failing move found" % ", ".join(failed),
                      {"theorem_files": failed, "coq_output": out[-3000:]}, no_input=True)
    ctx.cov["trusted_base"] += ["Coq 8.16.1 kernel", "extraction + drivers", "std::regex is modelled by an explicit greedy backtracking matcher (Chess/San.v regex_match), tied by the correspondence"]
