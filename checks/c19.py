"""C19  Book lookups return exactly what the book file says."""
import concurrent.futures
import os
import posgen
from corr import *
from vlib import *

LEVEL = "proof"


def rec(rng, key=None, weight=None):
    key = rng.getrandbits(64) if key is None else key
    mc = rng.getrandbits(15)
    w = rng.choice([0, 0, 1, 1, 2, 5, 100, 65535, rng.randrange(65536)]) if weight is None else weight
    return "%016x%04x%04x%08x" % (key, mc, w, rng.getrandbits(32))


def run(ctx):
    ok, failed, out = ctx.prove("Props/Properties_C19")
    model = model_driver()
    impl = harness("impl_driver")
    q = ctx.tier == "quick"
    rng = ctx.rng
    # (1) reader: well-formed, empty, truncated at every offset, duplicate keys, zero weights
    books = ["-"]
    for n in range(0, 6):
        keys = [rng.getrandbits(64) for _ in range(3)]
        b = "".join(rec(rng, rng.choice(keys)) for _ in range(n))
        books.append(b or "-")
        for cut in range(1, 32):
            if len(b) // 2 > cut:
                books.append(b[: len(b) - 2 * cut])
    for _ in range(200 if q else 5000):
        n = rng.randrange(1, 40)
        keys = [rng.getrandbits(64) for _ in range(rng.randrange(1, 6))]
        b = "".join(rec(rng, rng.choice(keys)) for _ in range(n))
        cut = rng.choice([0, 0, 0, 1, 2, 7, 8, 15, 16, 17])
        b = b[: max(0, len(b) - 2 * cut)]
        books.append(b or "-")
    # keys with the top bit set (sign handling of char buffers)
    books.append(rec(rng, 0xFFFFFFFFFFFFFFFF, 0xFFFF) + rec(rng, 0x8000000000000000, 0x8000))
    cases = ["book " + b for b in books]
    rc1, o1, e1, o2 = both(cases, impl, model, shards=4)
    nviol = 0
    for c, a, b in zip(cases, o1, o2):
        if a != b:
            nviol += 1
            if nviol <= 3:
                ctx.violation("loaded book differs from the complete records of the file: %s -> engine [%s] model [%s]" % (c[:120], (a or "")[:200], (b or "")[:200]),
                              {"book_hex": c[5:], "engine": a, "model": b}, key="c19book:" + c[:80])
    ctx.cov["evaluations"] += len(cases)
    ctx.cov["distinct_nontrivial"] += len(set(cases))
    ctx.sample({"case": cases[3][:100], "engine": (o1[3] or "")[:100]})
    # (2) selection policies: exact comparison per draw (the harness replays std::mt19937)
    pcs = []
    for _ in range(300 if q else 6000):
        n = rng.randrange(1, 9)
        ws = [rng.choice([0, 0, 1, 1, 1, 2, 3, 10, 65535]) for _ in range(n)]
        pcs.append("pick %d %d | %s" % (rng.randrange(1 << 30), 40, " ".join(map(str, ws))))
    pcs += ["pick 1 50 | 0 5", "pick 2 60 | 1 1 1", "pick 3 10 | 0", "pick 4 10 | 0 0 0", "pick 5 50 | 5 0", "pick 6 80 | 1 0 1 0 1"]
    crashed, a1 = run_lines_robust(impl, pcs, shards=4)
    rc1 = crashed[0][1] if crashed else 0
    e1 = crashed[0][2] if crashed else ""
    mcs = []
    for c, a in zip(pcs, a1):
        ws = c.split("|")[1].strip()
        if a is None or a == "EMPTY":
            mcs.append("pickm | " + ws)
            continue
        draws = [x.split(":")[0] for x in a.split() if not x.startswith("best")]
        mcs.append("pickm %s | %s" % (" ".join(draws), ws))
    rc2, a2, e2 = run_lines(model, mcs, shards=4)
    ndraw = 0
    zero_picked = 0
    for c, a, b in zip(pcs, a1, a2):
        if a is None:
            nviol += 1
            ctx.violation("book selection crashed: %s (rc=%d) %s" % (c, rc1, e1[-300:]), {"op": c, "stderr": e1[-1000:]}, key="c19crash:" + c)
            continue
        ndraw += len(a.split()) - 1
        if a != b:
            nviol += 1
            if nviol <= 5:
                ctx.violation("book move selection differs from the model: %s -> engine [%s] model [%s]" % (c, a[:300], (b or "")[:300]),
                              {"op": c, "engine": a, "model": b}, key="c19pick:" + c)
    ctx.cov["evaluations"] += ndraw
    ctx.cov["distinct_nontrivial"] += len(set(pcs))
    ctx.sample({"case": pcs[0], "engine": (a1[0] or "")[:160]})
    # (3) decode_move in positions with/without the king on its home square
    fens = ["r3k2r/8/8/8/8/8/8/R3K2R w KQkq - 0 1", "r3k2r/8/8/8/8/8/8/R3K2R b KQkq - 0 1", "4k3/8/8/8/8/8/8/4Q2R w - - 0 1",
            "4q2r/8/8/8/8/8/8/4K3 b - - 0 1", posgen.START]
    codes = []
    for f in (4, 60, 3, 12):
        for t in (0, 2, 6, 7, 56, 58, 62, 63, 20):
            for pr in (0, 5):
                codes.append(str((pr << 12) | (t << 6) | f))
    dc = ["pgdecode %s | %s" % (f, " ".join(codes)) for f in fens]
    rc1, d1, e1, d2 = both(dc, impl, model, shards=1)
    for c, a, b in zip(dc, d1, d2):
        if a != b:
            nviol += 1
            ctx.violation("decode_move differs: %s" % c[:80], {"op": c, "engine": a, "model": b}, key="c19dec:" + c[:60])
    ctx.cov["evaluations"] += len(dc) * len(codes)
    ctx.notes["draws_compared"] = ndraw
    # ---- the UCI level: `setoption name Polyglot Book` + `go` on the real binary, in several command orders.  The book holds the
    #      current position's published key (extracted spec) with legal moves and weights; `best` must answer a move of maximal weight,
    #      `random` a recorded move of non-zero weight; the key probed must be the key of the CURRENT position (after ucinewgame: the
    #      start position; after `moves`: the position reached) ----
    import struct
    import shutil
    from ucisession import run_script
    exe = engine_binary("plain")
    scratch = os.path.join(BUILD, "c19_books")
    os.makedirs(scratch, exist_ok=True)

    def enc_move(m):
        x = ((ord(m[1]) - 49) * 8 + (ord(m[0]) - 97)) * 64 + (ord(m[3]) - 49) * 8 + (ord(m[2]) - 97)
        if len(m) == 5:
            x |= {"n": 1, "b": 2, "r": 3, "q": 4}[m[4]] << 12
        return x
    CASTLE = {"e1g1": "e1h1", "e1c1": "e1a1", "e8g8": "e8h8", "e8c8": "e8a8"}
    upos = posgen.valid_positions(model, rng, 60 if q else 800, extra=["r3k2r/8/8/8/8/8/8/R3K2R w KQkq - 0 1", "4k3/4P3/8/8/8/8/8/4K3 w - - 0 1", posgen.START])
    rcu, ul, eu = run_lines(model, ["legal " + f for f in upos])
    rcu, uk, eu = run_lines(model, ["pghash " + f for f in upos + [posgen.START]])
    startkey = int(uk[-1].strip(), 16)
    rcu, sl, eu = run_lines(model, ["legal " + posgen.START])
    ujobs = []
    for i, (f, l, k) in enumerate(zip(upos, ul, uk)):
        ms = (l or "0").split()[1:]
        if len(ms) < 2 or not k:
            continue
        kings = f.split()[0]
        pick = rng.sample(ms, min(len(ms), rng.choice([2, 3, 4])))
        ws = [rng.choice([0, 1, 1, 7, 100, 65535]) for _ in pick]
        if max(ws) == 0:
            ws[0] = 3
        recs = []
        mvs_pos = []
        for m, w in zip(pick, ws):
            def piece_on(fen, sqn):
                row = fen.split()[0].split("/")[8 - int(sqn[1])]
                col = 0
                for ch in row:
                    if ch.isdigit():
                        col += int(ch)
                    else:
                        if col == ord(sqn[0]) - 97:
                            return ch
                        col += 1
                return None
            mm = CASTLE[m] if (m in CASTLE and (piece_on(f, m[:2]) or "").lower() == "k") else m      # Polyglot stores castling as king-takes-rook
            recs.append((int(k.strip(), 16), enc_move(mm), w))
            mvs_pos.append(enc_move(mm))
        sm = rng.choice((sl[0] or "").split()[1:])
        recs.append((startkey, enc_move(sm), 9))
        recs.sort(key=lambda r: r[0])
        path = os.path.join(scratch, "u%d.bin" % i)
        with open(path, "wb") as fh:
            for key_, mv_, w_ in recs:
                fh.write(struct.pack(">QHHI", key_, mv_, w_, 0))
        best = [m for m, w in zip(pick, ws) if w == max(ws)]
        nonzero = [m for m, w in zip(pick, ws) if w > 0]
        opts = ["setoption name Polyglot Book value " + path]
        if f != posgen.START:
            ujobs.append((f, "best", best, opts + ["setoption name Polyglot Sample value best", "position fen " + f, "go depth 1"]))
            ujobs.append((f, "random", nonzero, opts + ["setoption name Polyglot Sample value random", "position fen " + f, "go depth 1"]))
            ujobs.append((posgen.START, "after ucinewgame", [sm], opts + ["setoption name Polyglot Sample value best", "position fen " + f, "ucinewgame", "go depth 1"]))
            ujobs.append((f, "position after another position", best, opts + ["setoption name Polyglot Sample value best", "position startpos moves e2e4", "position fen " + f, "go depth 1"]))
            # the ORDER and REPETITION of the two options: nearly equal weights (the best move is unique, every other move is almost as
            # likely under weighted sampling) and several go commands, so that a policy silently back at `random` shows
            ws2 = [50000 + j for j in range(len(pick))]
            rng.shuffle(ws2)
            path2 = os.path.join(scratch, "v%d.bin" % i)
            recs2 = [(int(k.strip(), 16), mv_, w2) for (mv_, w2) in zip(mvs_pos, ws2)] + [(startkey, enc_move(sm), 9)]
            recs2.sort(key=lambda r_: r_[0])
            with open(path2, "wb") as fh:
                for key_, mv_, w_ in recs2:
                    fh.write(struct.pack(">QHHI", key_, mv_, w_, 0))
            best2 = [m for m, w in zip(pick, ws2) if w == max(ws2)]
            gos = ["position fen " + f, "go depth 1"] * 6
            sb, bk, bk1 = "setoption name Polyglot Sample value best", "setoption name Polyglot Book value " + path2, "setoption name Polyglot Book value " + path
            shape_ = rng.choice([("policy set before the book", [sb, bk]), ("book set twice", [bk, sb, bk]), ("book replaced by another book", [bk1, sb, bk]),
                                 ("book emptied and set again", [bk, sb, "setoption name Polyglot Book value ", bk]), ("policy random, then best, then the book", ["setoption name Polyglot Sample value random", sb, bk]),
                                 ("policy set twice around the book", [sb, bk, sb])])
            ujobs.append((f, shape_[0], best2, shape_[1] + gos))
    with concurrent.futures.ThreadPoolExecutor(max_workers=NPROC) as ex:
        ures = list(ex.map(lambda j: run_script(exe, j[3], go_timeout=60), ujobs))
    shutil.rmtree(scratch, ignore_errors=True)
    nu = 0
    for (f, shape, allowed, script), r in zip(ujobs, ures):
        nu += 1
        b = r["bestmoves"][0] if r["bestmoves"] else None
        wrong = [x for x in r["bestmoves"] if x not in allowed]
        if b in allowed and wrong:
            b = wrong[0]
        if b not in allowed:
            nviol += 1
            if nviol <= 6:
                ctx.violation("UCI level [%s]: the book recommends %s for '%s' but the engine answered %s" % (shape, "/".join(allowed), f, b),
                              {"session": script, "allowed": allowed, "answer": b, "log": r["log"][-6:], "note": "the book file is rebuilt by the check; its records are in the session's setoption path at run time"},
                              key="c19:uci:%s:%s" % (shape, f))
    ctx.cov["evaluations"] += nu
    ctx.notes["uci_level_book_sessions"] = nu
    ctx.cov["rule"] = ("%d book byte strings (empty, 0-5 records truncated at every offset 1..31, random books with duplicate keys / zero "
                       "weights / top-bit keys, random truncations): the loaded map must equal Book.read_book; %d weight vectors x 40 draws: every "
                       "sampled move compared exactly with the model given the same draw (the harness replays std::mt19937), plus the best move; "
                       "decode_move on %d raw moves x %d positions." % (len(books), len(pcs), len(codes), len(fens)))
    if not ok and nviol == 0:
        ctx.violation("Coq obligations for C19 no longer check (%s); no failing book found" % ", ".join(failed),
                      {"theorem_files": failed, "coq_output": out[-3000:]}, no_input=True)
    ctx.cov["trusted_base"] += ["Coq 8.16.1 kernel", "extraction + drivers", "std::ifstream::read semantics are modelled (a short read fails and inserts nothing), tied by truncations at every offset",
                                "std::mt19937 / uniform_int_distribution are replayed by the harness, not modelled"]
