"""C05  Every `go` is answered by exactly one legal `bestmove`; every pv is a legal line."""
import gen
import posgen
from searchlib import *
from vlib import *

LEVEL = "proof"

DRAWISH = [
    # a capture leads to insufficient material / stalemate tricks / perpetual shuffles: pv tails end in rule draws
    "8/8/8/8/8/4k3/b5p1/6K1 w - - 0 1", "8/8/8/8/8/5k2/6p1/6K1 w - - 0 1", "k7/2K5/8/8/8/8/8/1n6 w - - 0 1",
    "8/8/8/8/2b5/8/1k1K4/8 w - - 99 80", "7k/5K2/6Q1/8/8/8/8/8 b - - 0 1", "8/8/8/3k4/8/3K4/3N4/8 b - - 0 1",
    "6k1/8/6K1/8/8/8/8/5R2 w - - 97 60", "8/8/8/8/8/1k6/1p6/1K6 b - - 0 1", "5k2/5P2/5K2/8/8/8/8/8 b - - 0 1",
]
HEAVY = [
    "1QqQqQq1/r6Q/Q6q/q6Q/B2q4/q6Q/k6K/1qQ1QqRb w - - 0 1", "q2qk2q/8/8/8/8/8/8/Q2QK2Q w - - 0 1",
    "k7/8/1r1q1r1q/b1q1n1q1/1Q1N1Q1B/Q1R1Q1R1/8/7K w - - 0 1", "R6R/3Q4/1Q4Q1/4Q3/2Q4Q/Q4Q2/pp1Q4/kBNN1KB1 w - - 0 1",
]


def limit_shapes(rng, stm_white):
    side = "wtime" if stm_white else "btime"
    other = "btime" if stm_white else "wtime"
    return ["depth %d" % rng.choice([1, 1, 2, 3, 3, 4]), "nodes %d" % rng.choice([1, 2, 50, 3000]), "movetime %d" % rng.choice([1, 1, 2, 20]),
            "movetime -5", "%s %d %s 1000" % (side, rng.choice([1, 2, 30]), other), "%s -100 %s 1000 winc 0 binc 0" % (side, other),
            "depth %d nodes %d" % (rng.choice([2, 5, 30]), rng.choice([100, 5000])), "%s 5 %s 5 movestogo %d" % (side, other, rng.choice([1, 2, 40])),
            "infinite @stopat=%d" % rng.choice([0, 1, 2, 5, 30, 200, 2000])]


def run(ctx):
    gen.gen(["consts"])
    ok, failed, out = ctx.prove("Props/Properties_C05")
    model = model_driver()
    drv = harness("search_driver")
    q = ctx.tier == "quick"
    rng = ctx.rng
    fens = posgen.valid_positions(model, rng, 260 if q else 3000, extra=posgen.CLASSIC + DRAWISH)
    # keep positions with at least one legal move (the property's precondition)
    rc, res, err = run_lines(model, ["legal " + f for f in fens + HEAVY], shards=NPROC)
    legal = {f: (r or "0").split()[1:] for f, r in zip(fens + HEAVY, res)}
    fens = [f for f in fens if legal[f]]
    sessions, meta = [], []

    def add(lines, info):
        sessions.append(lines)
        meta.append(info)
    # (a) ordinary sessions: several positions share one table (epoch bumps in between), all limit shapes
    for _ in range(70 if q else 900):
        lines, info = [], []
        for j in range(rng.randrange(2, 6)):
            f = rng.choice(fens)
            lim = rng.choice(limit_shapes(rng, f.split()[1] == "w"))
            lines.append("epoch")
            info.append(None)
            lines.append("go %s | | %s" % (f, lim))
            info.append((f, lim, "plain"))
            if rng.random() < 0.15:
                lines.append("new")
                info.append(None)
        add(lines, info)
    # (b) adversarial table contents: entries for the root key and keys inside the tree with illegal / foreign / NO_MOVE moves
    for _ in range(110 if q else 1500):
        f = rng.choice(fens)
        lines = ["poison %d %d %s |" % (rng.randrange(1 << 30), rng.choice([3, 50, 400]), f)]
        info = [None]
        if rng.random() < 0.5:
            lines.append("epoch")
            info.append(None)
        lim = rng.choice(["depth 1", "depth 2", "depth 3", "depth 4", "depth 3 @stopat=%d" % rng.randrange(0, 300), "movetime 1", "nodes 500"])
        lines.append("go %s | | %s" % (f, lim))
        info.append((f, lim, "poison"))
        add(lines, info)
    # (b') the two together: a poisoned root entry AND a stop before the first iteration completes (fallback answer path)
    for _ in range(60 if q else 800):
        f = rng.choice(fens)
        lim = rng.choice(["infinite @stopat=%d" % rng.choice([0, 0, 1, 2, 3, 5, 8]), "depth 3 @stoppoint=%d" % rng.choice([0, 1, 2, 10]),
                          "depth 2 @stopat=0 searchmoves %s" % " ".join(rng.sample(legal[f], max(1, len(legal[f]) // 2)))])
        add(["poison %d 3 %s |" % (rng.randrange(1 << 30), f), "go %s | | %s" % (f, lim)], [None, (f, lim, "poison+earlystop")])
    # (c) early-stop enumeration: stop after exactly k node visits, k = 0..K, and at every schedule point / iteration boundary
    base = [posgen.START, posgen.CLASSIC[1], "8/8/8/8/8/4k3/b5p1/6K1 w - - 0 1"] + HEAVY[:2]
    K = 40 if q else 400
    for f in base:
        lines, info = [], []
        for k in list(range(0, K)) + [rng.randrange(K, 20000) for _ in range(10 if q else 100)]:
            lines.append("go %s | | depth 5 @stopat=%d" % (f, k))
            info.append((f, "depth 5 @stopat=%d" % k, "stopat"))
        for p in (0, 1, 2, 4, 10, 11, 12, 13):
            lines.append("go %s | | depth 3 @stoppoint=%d" % (f, p))
            info.append((f, "depth 3 @stoppoint=%d" % p, "stoppoint"))
        add(lines, info)
    # (d) rule-draw leaves in the pv (stale pv tails), searchmoves
    for f in DRAWISH + [x for x in fens if sum(ch.isalpha() for ch in x.split()[0]) <= 4][: (40 if q else 400)]:
        if not legal.get(f):
            continue
        lines = ["go %s | | depth %d" % (f, rng.choice([4, 5, 6]))]
        info = [(f, "depth", "drawish")]
        sub = rng.sample(legal[f], max(1, len(legal[f]) // 3))
        lines.append("go %s | | depth 3 searchmoves %s" % (f, " ".join(sub)))
        info.append((f, "searchmoves " + " ".join(sub), "searchmoves"))
        add(lines, info)
    # (e) positions in which BOTH kings can still castle: the opponent's castling move inside a pv (a castling move carries no squares, its
    #     text depends on the position it is printed for)
    cm = [f for f in posgen.filter_valid(model, posgen.castling_middlegames(rng, 90 if q else 900))]
    rc, res, err = run_lines(model, ["legal " + f for f in cm], shards=NPROC)
    for f, r in zip(cm, res):
        legal[f] = (r or "0").split()[1:]
    for f in cm:
        if legal[f]:
            add(["go %s | | depth 4" % f, "go %s | | depth 6" % f], [(f, "depth 4", "both-can-castle"), (f, "depth 6", "both-can-castle")])
    results, crashes = run_sessions(drv, sessions)
    for (si, rc, err) in crashes[:3]:
        ctx.violation("search driver died (rc=%d) during a session: %s" % (rc, err[-400:]),
                      {"session": sessions[si], "rc": rc, "stderr": err}, key="c05:crash:%d" % si)
    # judge
    drive_cases, drive_exp, drive_meta = [], [], []
    pv_cases, pv_meta = [], []
    ngo = 0
    npvnodes = [0]
    kinds = {}
    nviol = len(crashes)
    for lines, info, res in zip(sessions, meta, results):
        for ln, inf, r in zip(lines, info, res or []):
            if inf is None:
                continue
            f, lim, kind = inf
            g = parse_go(r)
            if g is None:
                if r is not None:
                    ctx.violation("unparsable driver output for '%s': %s" % (ln, r[:200]), {"cmd": ln, "out": r}, key="c05:parse:" + ln)
                    nviol += 1
                continue
            ngo += 1
            kinds[kind] = kinds.get(kind, 0) + 1
            root = legal[f]
            allowed = lim.split("searchmoves ")[1].split() if "searchmoves " in lim else root
            if g["nbest"] != 1 or g["best"] not in allowed:
                nviol += 1
                if nviol <= 4:
                    ctx.violation("go answered with %d bestmove line(s), move '%s' (legal/allowed: %s): position '%s', go %s [%s]"
                                  % (g["nbest"], g["best"], " ".join(allowed[:12]), f, lim, kind),
                                  {"session": lines, "failing_cmd": ln, "result": r, "legal_moves": root}, key="c05:bm:%s:%s" % (f, lim))
            if g.get("badpv", 0):
                nviol += 1
                if nviol <= 6:
                    ctx.violation("a node left a pv in its slot that is not a playable line from the node's position (invariant of theorem C05_pv_legal): %s at %s"
                                  % (ln, str(g.get("badpv_at", "?")).replace("_", " ")), {"session": lines, "failing_cmd": ln, "result": r}, key="c05:nodepv:" + ln)
            npvnodes[0] += g.get("pvnodes", 0)
            if not g.get("restored", 1):
                nviol += 1
                ctx.violation("the search did not restore its position after go: '%s' go %s" % (f, lim), {"session": lines, "cmd": ln}, key="c05:restore:" + ln)
            for dep, score, pv in g["iters"]:
                pv_cases.append("g_legal %s | %s" % (f, " ".join(pv)))
                pv_meta.append((lines, ln, f, lim, pv, dep))
            dl, exp = drive_line(g)
            drive_cases.append(dl)
            drive_exp.append(exp)
            drive_meta.append((lines, ln, r, g))
    # every printed pv must be a legal line (judged by the extracted rules)
    rc, pres, err = run_lines(model, pv_cases, shards=NPROC)
    npv = 0
    nopp = 0
    for case, (lines, ln, f, lim, pv, dep), pr in zip(pv_cases, pv_meta, pres):
        npv += 1
        if any(i % 2 == 1 and m in (("e8g8", "e8c8") if f.split()[1] == "w" else ("e1g1", "e1c1")) for i, m in enumerate(pv)):
            nopp += 1
        lists = (pr or "").split(" ; ")
        bad = None
        if not pv:
            bad = "empty pv"
        for i, m in enumerate(pv):
            if i >= len(lists) or m not in lists[i].split()[1:]:
                bad = "move %d (%s) is not legal after %s" % (i + 1, m, " ".join(pv[:i]) or "(root)")
                break
        if bad:
            nviol += 1
            if nviol <= 6:
                ctx.violation("printed pv is not a legal line: %s; position '%s', go %s, info depth %s pv %s" % (bad, f, lim, dep, " ".join(pv)),
                              {"session": lines, "failing_cmd": ln, "pv": pv, "problem": bad}, key="c05:pv:%s:%s" % (f, lim))
    # replay of the recorded root calls through the extracted iteration-driver model (conformance of the model)
    rc, dres, err = run_lines(model, drive_cases, shards=NPROC)
    nconf = 0
    for dl, exp, (lines, ln, r, g), got in zip(drive_cases, drive_exp, drive_meta, dres):
        if got == exp:
            nconf += 1
        else:
            # root pv heads must be root moves: the root-node lemma the theorem assumes
            nviol += 1
            if nviol <= 6:
                ctx.violation("iteration-driver model and engine disagree on a recorded run (correspondence 'drive'): cmd '%s': model [%s] engine [%s]"
                              % (ln, (got or "")[:300], exp[:300]), {"session": lines, "failing_cmd": ln, "model": got, "engine": exp, "raw": r},
                              key="c05:drive:" + ln, no_input=(g["nbest"] == 1))
    # hypothesis of theorem C05_bestmove on every recorded root call: non-empty root pv -> its head is a root move
    nroot = 0
    for (lines, ln, r, g) in drive_meta:
        f = ln.split(" | ")[0][3:]
        for (d, a, b, ret, pvlen, pv0, st) in g["roots"]:
            nroot += 1
            if pvlen > 0 and pv0 not in legal.get(f, []):
                nviol += 1
                ctx.violation("root pv head '%s' is not a legal root move: %s" % (pv0, ln), {"session": lines, "cmd": ln}, key="c05:rootpv:" + ln)
            if not st and a < ret < b and pvlen == 0:
                nviol += 1
                ctx.violation("root search returned inside its window with an empty pv: %s" % ln, {"session": lines, "cmd": ln}, key="c05:emptypv:" + ln)
    # ---- the UCI level with its state: sequences of related position / moves / ucinewgame commands on the engine binary (same root with
    #      longer / shorter / equal move lists, an earlier position line again after ucinewgame, take-backs over castling, FENs that differ
    #      in trailing digits), then `go`: exactly one bestmove, legal in the position the commands DESCRIBE; every pv playable there ----
    import uciglue
    exe = engine_binary("plain")
    pool = posgen.valid_positions(model, rng, 150 if q else 2000, extra=posgen.CLASSIC)
    ugames = [g for g in posgen.playouts(model, rng, [posgen.START] * (40 if q else 400) + pool[: (60 if q else 800)], 10) if len(g[1]) >= 4]
    usess = uciglue.gen_sessions(rng, ugames, 60 if q else 1200)
    uexp = uciglue.expected_fens(model, run_lines, usess, shards=NPROC)
    usess2, uexp2 = [], []
    for s_, e_ in zip(usess, uexp):
        if e_ and e_[-1]:
            usess2.append(s_)
            uexp2.append(e_[-1])
    rcu, ul, eu = run_lines(model, ["legal " + e for e in uexp2], shards=NPROC)
    keep = [(s_, e, (l or "0").split()[1:]) for s_, e, l in zip(usess2, uexp2, ul) if (l or "0").split()[0] != "0"]
    ugot = uciglue.run_sessions(exe, [k[0] for k in keep], final_go=rng.choice(["go depth 2", "go depth 3", "go movetime 20", "go nodes 2000"]), timeout=60)
    nuci = 0
    for (s_, e, lm), gt in zip(keep, ugot):
        nuci += 1
        b = gt[-1].get("bestmove") if gt else None
        bad = None
        if b not in lm:
            bad = "bestmove %s is not legal in the position the commands describe (%s)" % (b, e)
        else:
            for pv in gt[-1].get("pvs", []):
                if pv and pv[0] not in lm:
                    bad = "a pv starts with %s, which is not legal in the position the commands describe (%s)" % (pv[0], e)
                    break
        if bad:
            nviol += 1
            if nviol <= 8:
                ctx.violation("UCI session [%s ; go]: %s" % (" ; ".join(c[:120] for c, _ in s_), bad),
                              {"session": [c for c, _ in s_] + ["go depth 2"], "expected_position": e, "legal": lm, "answer": b}, key="c05:sess:" + " ; ".join(c for c, _ in s_)[:300])
    # ... and every pv printed by the binary is a legal line from the position the commands describe
    upv = [(s_, e, pv) for (s_, e, lm), gt in zip(keep, ugot) if gt for pv in gt[-1].get("pvs", []) if pv]
    rcu, upr, eu = run_lines(model, ["g_legal %s | %s" % (e, " ".join(pv)) for (_, e, pv) in upv], shards=NPROC)
    for (s_, e, pv), pr in zip(upv, upr):
        npv_u = (pr or "").split(" ; ")
        for i, m in enumerate(pv):
            if i >= len(npv_u) or m not in npv_u[i].split()[1:]:
                nviol += 1
                if nviol <= 8:
                    ctx.violation("UCI session [%s ; go]: printed pv '%s': move %d (%s) is not legal at its place in the line (position %s)"
                                  % (" ; ".join(c[:120] for c, _ in s_), " ".join(pv), i + 1, m, e),
                                  {"session": [c for c, _ in s_], "expected_position": e, "pv": pv}, key="c05:sesspv:" + e + " ".join(pv))
                break
    ctx.notes["uci_session_pv_lines_checked"] = len(upv)
    ngo += nuci
    ctx.notes["uci_sessions_with_final_go"] = nuci
    ctx.cov["evaluations"] = ngo
    ctx.cov["distinct_nontrivial"] = len(set(dl for dl in drive_cases))
    ctx.cov["traces_validated_against_impl"] = nconf
    ctx.notes["go_commands_by_kind"] = kinds
    ctx.notes["pv_lines_checked"] = npv
    ctx.notes["pv_lines_with_a_castling_shaped_move_of_the_opponent"] = nopp
    ctx.notes["node_exits_with_pv_checked"] = npvnodes[0]
    ctx.notes["root_calls_checked"] = nroot
    for (lines, ln, r, g) in drive_meta[:3]:
        ctx.sample({"cmd": ln, "bestmove": g["best"], "iterations": [(d, s, " ".join(pv)) for d, s, pv in g["iters"]][:3]})
    ctx.cov["rule"] = ("%d go commands in %d sessions on the in-process Search (own table + evaluator): (a) sessions sharing a table over several positions "
                       "and all limit shapes (depth, nodes, movetime incl. 1 / negative, tiny / negative clocks, infinite + stop after k visits); (b) adversarially "
                       "poisoned tables (root key and keys in the tree; illegal / foreign / NO_MOVE / castling / promotion codes, all flags, depth 0..200, mate and "
                       "near-infinite scores, stale and current epochs); (c) stop after exactly k node visits for k=0..%d (+random) and at every schedule point / "
                       "iteration boundary; (d) rule-draw leaves and searchmoves subsets.  Judged: exactly one bestmove, legal by the extracted rules (in the "
                       "searchmoves list when given); every printed pv a legal line; every recorded root call replayed through the extracted iteration-driver "
                       "model (exact window / depth / info / bestmove sequence); hypotheses of theorem C05_bestmove on every root call.  distinct = distinct recorded runs."
                       % (ngo, len(sessions), K - 1))
    if not ok and nviol == 0:
        ctx.violation("Coq obligations for C05 no longer check (%s); no failing session found" % ", ".join(failed),
                      {"theorem_files": failed, "coq_output": out[-3000:]}, no_input=True)
    ctx.cov["trusted_base"] += ["Coq 8.16.1 kernel", "extraction + ocaml/driver.ml; harness/search_driver.cpp with the CHESSPP_VERIF hooks (node entry/exit, schedule points)",
                                "the search BELOW the root (evaluation, table, ordering, pruning) enters the theorems as an adversarial oracle; what the theorem assumes of it "
                                "(root pv head is a root move; inside-window result has a pv) is checked on every recorded root call",
                                "termination of the aspiration loop is not a theorem for adversarial oracles (stated in DESIGN.md); every run here terminated"]
    ctx.assumptions += ["position has at least one legal move (filtered by the extracted legal_moves)", "poisoned scores lie strictly inside (-VALUE_INFINITE, VALUE_INFINITE)"]
