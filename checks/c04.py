"""C04  The position key is a function of the position, not of its history."""
import posgen
from corr import *
from vlib import *

LEVEL = "proof"


def run(ctx):
    ok, failed, out = ctx.prove("Props/Properties_C04")
    model = model_driver()
    impl = harness("impl_driver")
    q = ctx.tier == "quick"
    fens = posgen.valid_positions(model, ctx.rng, 800 if q else 10000, extra=posgen.CLASSIC)
    ng = 150 if q else 3000
    starts = [posgen.START] * ng
    games = posgen.playouts(model, ctx.rng, starts, 30, bias=2)       # short games: many transpositions
    games += posgen.playouts(model, ctx.rng, [ctx.rng.choice(fens) for _ in range(ng // 2)], 60)
    # constructed transpositions: knight shuffles and swapped independent moves
    T = [("g1f3 g8f6 b1c3 b8c6", "b1c3 b8c6 g1f3 g8f6"), ("e2e3 e7e6 d2d3 d7d6", "d2d3 d7d6 e2e3 e7e6"),
         ("g1f3 g8f6 f3g1 f6g8 e2e4", "e2e4"), ("b1c3 g8f6 c3b1 f6g8 g1f3 b8c6 f3g1 c6b8 d2d4 d7d5", "d2d4 d7d5"),
         ("e2e4 e7e5 g1f3 b8c6 f1c4 f8c5 e1g1 g8f6", "g1f3 b8c6 e2e4 e7e5 f1c4 g8f6 e1g1 f8c5")]
    combos = posgen.filter_valid(model, posgen.combo_positions(ctx.rng, 60 if q else 600))
    games += posgen.all_moves_games(model, combos)
    ctx.notes['combo_template_positions'] = len(combos)
    for a, b in T:
        games.append((posgen.START, a.split()))
        games.append((posgen.START, b.split()))
    n1, v1 = diff_games(ctx, "g_key", games, "key differs from the model (incremental / from-scratch)", impl, model)
    # the property on the implementation alone
    cases = ["g_key %s | %s" % (f, " ".join(ms)) for f, ms in games]
    rc1, o1, e1 = run_lines(impl, cases, shards=1)      # one process: keys are relative to one process
    seen = {}
    pawnseen = {}
    v2 = 0
    npos = 0
    for (f, ms), o in zip(games, o1):
        for i, x in enumerate((o or "").split(" ; ")):
            if " | " not in x:
                continue
            pos4, ks = x.split(" | ")
            h, ph, h2, ph2 = ks.split()
            npos += 1
            if (h != h2 or ph != ph2) and v2 < 3:
                v2 += 1
                ctx.violation("incremental key %s/%s differs from the key of the FEN-reloaded position %s/%s after %s from %s" % (h, ph, h2, ph2, " ".join(ms[:i]), f),
                              {"fen": f, "moves": ms[:i], "incremental": [h, ph], "scratch": [h2, ph2]}, key="c04inc:%s:%s" % (f, " ".join(ms[:i])))
            if pos4 in seen and seen[pos4][0] != h and v2 < 3:
                v2 += 1
                ctx.violation("same position '%s' reached by two paths has two keys %s / %s" % (pos4, seen[pos4][0], h),
                              {"position": pos4, "path1": seen[pos4][1], "path2": [f, ms[:i]], "keys": [seen[pos4][0], h]}, key="c04path:" + pos4)
            seen.setdefault(pos4, (h, [f, ms[:i]]))
            pawns = "".join(ch if ch in "Pp/12345678" else "x" for ch in pos4.split()[0])
            # pawn key depends on pawn placement only
            pk = pos4.split()[0]
            import re as _re
            canon = _re.sub(r"[^Pp/]", ".", _expand(pk))
            if canon in pawnseen and pawnseen[canon][0] != ph and v2 < 3:
                v2 += 1
                ctx.violation("pawn key differs for equal pawn placement: %s vs %s" % (pawnseen[canon], (ph, pos4)),
                              {"a": pawnseen[canon], "b": [ph, pos4]}, key="c04pawn:" + canon)
            pawnseen.setdefault(canon, (ph, pos4))
    # the engine's OWN tables (zobrist::init(); the correspondence above runs on fixed tables): every word a position key can be
    # built from must be non-zero and pairwise distinct, otherwise two positions differing in one component collide systematically
    rc, zt, err = run_lines(impl, ["ztable", "ztable"])
    nz = 0
    for line in zt:
        parts = [x.split() for x in (line or "").split("|")]
        if len(parts) != 4 or len(parts[0]) != 768 or len(parts[1]) != 16 or len(parts[2]) != 1 or len(parts[3]) != 8:
            ctx.violation("ztable output malformed: %s" % (line or "")[:200], {"line": line}, key="c04:ztable", no_input=True)
            v2 += 1
            break
        names = ["piece[%d][%d]" % (1 + i // 64, i % 64) for i in range(768)] + ["castling[%d]" % i for i in range(16)] + ["side"] + ["ep[%d]" % i for i in range(8)]
        vals = [int(x, 16) for x in parts[0] + parts[1] + parts[2] + parts[3]]
        nz += len(vals)
        seenv = {}
        for nm, v in zip(names, vals):
            bad = None
            if v == 0 and nm != "castling[0]":
                bad = "%s is zero: a position with that feature has the same key as the position without it" % nm
            elif v in seenv and not (v == 0):
                bad = "%s equals %s (%x)" % (nm, seenv[v], v)
            seenv.setdefault(v, nm)
            if bad and v2 < 4:
                v2 += 1
                fen = None
                if nm.startswith("ep["):
                    f_ = "abcdefgh"[int(nm[3])]
                    fen = "rnbqkbnr/ppppppp1/8/8/7p/8/PPPPPPPP/RNBQKBNR w KQkq - 0 2".replace("7p", "%dp%d" % (int(nm[3]), 7 - int(nm[3])) if 0 < int(nm[3]) < 7 else ("p7" if int(nm[3]) == 0 else "7p"))
                ctx.violation("Zobrist table as built by zobrist::init(): %s" % bad,
                              {"entry": nm, "value": "%x" % v, "example": "startpos moves %s2%s4 vs the same position without the en-passant square" % (f_, f_) if nm.startswith("ep[") else None},
                              key="c04:ztable:" + nm)
    ctx.notes["zobrist_words_checked_nonzero_distinct"] = nz
    # the same through the real entry point, with the engine's own random tables: inside ONE process of the engine binary the `hash`
    # shown after `position startpos moves ...` must equal the `hash` shown after `position fen <that position>` (incremental = scratch
    # through Uci::position_command), and equal positions reached by two move orders must show equal hashes
    import uciglue
    exe = engine_binary("plain")
    gsel = [g for g in games if g[1] and g[0] == posgen.START]
    ctx.rng.shuffle(gsel)
    gsel = gsel[: (60 if q else 800)]
    rcg, gf, eg = run_lines(model, ["g_fen %s | %s" % (f, " ".join(ms)) for f, ms in gsel], shards=NPROC)
    ucases = []
    for (f, ms), r in zip(gsel, gf):
        fs = (r or "").split(" ; ")
        for k in sorted(set([len(ms)] + [ctx.rng.randrange(1, len(ms) + 1) for _ in range(2)])):
            if k < len(fs) and fs[k] and not fs[k].startswith("BAD"):
                ucases.append((("startpos", None, ms[:k]), ("fen", fs[k], [])))
    flat = [c for pair in ucases for c in pair]
    obs = uciglue.observe(exe, flat, want=("hash",), per_process=len(flat) or 1, workers=1)     # ONE process: keys are per process
    byfen = {}
    nu = 0
    for i, (a, b) in enumerate(ucases):
        oa, ob = obs[2 * i], obs[2 * i + 1]
        nu += 1
        if oa["hash"] is None or oa["hash"] != ob["hash"]:
            v2 += 1
            if v2 <= 6:
                ctx.violation("UCI level: hash after '%s' is %s, after '%s' it is %s (same position)" % (oa["cmd"][:200], oa["hash"], ob["cmd"], ob["hash"]),
                              {"session": [oa["cmd"], "printboard", ob["cmd"], "printboard"], "hashes": [oa["hash"], ob["hash"]]}, key="c04:uci:" + oa["cmd"][:200])
        pos4 = " ".join(b[1].split()[:4])
        if pos4 in byfen and byfen[pos4][0] != oa["hash"] and v2 < 8:
            v2 += 1
            ctx.violation("UCI level: the position '%s' shows hash %s after '%s' and %s after '%s'" % (pos4, byfen[pos4][0], byfen[pos4][1][:150], oa["hash"], oa["cmd"][:150]),
                          {"session": [byfen[pos4][1], "printboard", oa["cmd"], "printboard"]}, key="c04:ucipath:" + pos4)
        byfen.setdefault(pos4, (oa["hash"], oa["cmd"]))
    ctx.notes["uci_level_hash_pairs"] = nu
    # stateful sessions (related consecutive position commands, take-backs over castling / en passant / promotions, `moves`,
    # ucinewgame): inside a session equal positions must show equal hashes, and the hash shown must equal the hash of the same
    # position loaded from its FEN at the end of the session (one process = one set of random tables)
    gpool = [g for g in games if len(g[1]) >= 4][: (300 if q else 3000)]
    sessions = uciglue.gen_sessions(ctx.rng, gpool, 80 if q else 1500)
    exp = uciglue.expected_fens(model, run_lines, sessions, shards=NPROC)
    for sess, ex_ in zip(sessions, exp):
        # reload every distinct expected position from its FEN at the end
        for e in list(dict.fromkeys(x for x in ex_ if x)):
            sess.append(("position fen " + e, (e, [])))
    exp = uciglue.expected_fens(model, run_lines, sessions, shards=NPROC)
    got = uciglue.run_sessions(exe, sessions)
    ns = 0
    for sess, ex_, gt in zip(sessions, exp, got):
        seen_h = {}
        for i, ((cmd, st), e, o) in enumerate(zip(sess, ex_, gt)):
            if e is None or o["hash"] is None:
                break
            ns += 1
            k4 = " ".join(e.split()[:4])
            if k4 in seen_h and seen_h[k4][0] != o["hash"]:
                v2 += 1
                if v2 <= 8:
                    ctx.violation("UCI session: the position '%s' shows hash %s after [%s] but %s after [%s]"
                                  % (k4, seen_h[k4][0], " ; ".join(c[:120] for c, _ in sess[: seen_h[k4][1] + 1]), o["hash"], " ; ".join(c[:120] for c, _ in sess[: i + 1])),
                                  {"session": [c for c, _ in sess[: i + 1]] + ["printboard"], "hashes": [seen_h[k4][0], o["hash"]]}, key="c04:sess:" + " ; ".join(c for c, _ in sess[: i + 1])[:300])
                break
            seen_h.setdefault(k4, (o["hash"], i))
    ctx.notes["uci_session_hashes_checked"] = ns
    # sanity (validation only): distinct positions got distinct keys in this process
    keys = {}
    coll = 0
    for pos4, (h, _) in seen.items():
        if h in keys and keys[h] != pos4:
            coll += 1
        keys[h] = pos4
    ctx.notes["distinct_positions"] = len(seen)
    ctx.notes["transposition_hits"] = npos - len(seen)
    ctx.notes["key_collisions_between_distinct_positions"] = coll
    ctx.cov["rule"] = ("%d games (short model-driven games rich in transpositions, games from constructed positions, hand-built transposition "
                       "pairs: swapped independent moves, knight-shuffle detours, castling reached by two orders): after every ply the "
                       "incremental key and pawn key must equal (a) the model's, (b) the keys of the same position reloaded from its FEN, "
                       "(c) the key of any earlier occurrence of the same (placement, side, rights, ep); pawn keys must agree whenever the "
                       "pawn placement agrees.  %d positions, %d distinct, %d repeats." % (len(games), npos, len(seen), npos - len(seen)))
    if not ok and v1 + v2 == 0:
        ctx.violation("Coq obligations for C04 no longer check (%s); no failing path found" % ", ".join(failed),
                      {"theorem_files": failed, "coq_output": out[-3000:]}, no_input=True)
    ctx.cov["trusted_base"] += ["Coq 8.16.1 kernel", "extraction + drivers", "std::mt19937_64 quality / collision odds are outside the theorem (stated in DESIGN.md)"]


def _expand(pl):
    out = ""
    for ch in pl:
        out += "." * int(ch) if ch.isdigit() else ch
    return out
