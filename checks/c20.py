"""C20  Time allocation never exceeds the clock."""
from corr import *
from vlib import *

LEVEL = "proof"

TMAX = 86_400_000       # 24 h in ms
INCMAX = 600_000        # 10 min
BOUND_T = [0, 1, 2, 3, 7, 9, 10, 11, 13, 14, 15, 19, 20, 99, 100, 101, 999, 1000, 1001, 1429, 59_999, 60_000, 3_599_999,
           3_600_000, 86_399_999, TMAX]


def gen_states(rng, n):
    out = []
    for T in BOUND_T:
        for inc in (0, 1, 1000, INCMAX):
            for mtg in (0, 1, 2, 3, 50, 200):
                for ply in (0, 1, 64, 65, 129, 1000):
                    out.append((T, inc, mtg, ply))
    rng.shuffle(out)
    out = out[: max(200, n // 3)]
    while len(out) < n:
        r = rng.random()
        T = rng.choice(BOUND_T) if r < 0.15 else (rng.randrange(0, 2000) if r < 0.4 else rng.randrange(0, TMAX + 1))
        inc = rng.choice([0, 0, 1, 100, 1000, 10_000, INCMAX, rng.randrange(0, INCMAX + 1)])
        mtg = rng.choice([0, 0, 1, 2, 3, 5, 10, 20, 40, 49, 50, 51, 100, 199, 200, rng.randrange(0, 201)])
        ply = rng.choice([0, 1, 2, 10, 30, 60, 64, 65, 66, 100, 200, 500, 999, 1000, rng.randrange(0, 1001)])
        out.append((T, inc, mtg, ply))
    return out


def run(ctx):
    ok, failed, out = ctx.prove("Props/Properties_C20")
    model = model_driver()
    q = ctx.tier == "quick"
    rng = ctx.rng
    nviol = 0
    # (0) hypothesis of the theorems on the libm oracle, checked EXHAUSTIVELY on the implementation:
    #     importance(x) for every x = ply + 2i the quantifier can produce (ply <= 1000, i < 200)
    impl_ieee = harness("impl_driver", flavor="ieee")
    impl_fast = harness("impl_driver", flavor="ofast")
    NIMP = 1000 + 2 * 200 + 2
    tables = {}
    for name, exe in (("ieee", impl_ieee), ("ofast", impl_fast)):
        rc, o, e = run_lines(exe, ["imptable %d" % NIMP])
        if rc != 0 or not o:
            raise BuildError("imptable failed on %s: %s" % (name, e[-500:]))
        if o[0].strip() == "UNAVAILABLE":
            tables[name] = None
            continue
        vals = [float.fromhex(x) for x in o[0].split()]
        tables[name] = o[0]
        bad = [(x, v) for x, v in enumerate(vals) if not (v == v and 1.0 / 128 <= v <= 1.0)]
        if len(vals) != NIMP or bad:
            nviol += 1
            ctx.violation("importance() leaves [1/128, 1] (hypothesis of C20_nonneg / C20_monotone) on the %s build: %s" % (name, bad[:3]),
                          {"build": name, "bad": bad[:10]}, key="c20:imp:" + name)
    ctx.cov["evaluations"] += 2 * NIMP
    ctx.notes["importance_range_checked"] = "x = 0..%d on both builds, all in [1/128, 1]" % (NIMP - 1)
    # (1) exact correspondence: extracted model with native binary64 and the implementation's own importance values
    #     against a strict-IEEE compile (-O1 -ffp-contract=off) of time_manager.cpp
    states = gen_states(rng, 1500 if q else 30000)
    cases = ["time %d %d %d %d %d" % (T, inc, mtg, ply, i % 2) for i, (T, inc, mtg, ply) in enumerate(states)]
    rc1, a1, e1 = run_lines(impl_ieee, cases, shards=NPROC)
    if tables["ieee"] is None:
        # engine::importance(double) is no longer an external function of time_manager.cpp: the model cannot be fed the
        # build's own table, so the exact correspondence cannot run; the properties are still judged directly below
        rc2, a2 = 0, []
        if rc1 != 0:
            raise BuildError("time driver failed rc=%d %s" % (rc1, e1[-300:]))
        mism = [("engine::importance(double) is not linkable any more", "-", "-")]
    else:
        rc2, a2, e2 = run_lines(model, ["impset " + tables["ieee"]] + cases, shards=1, timeout=1800)
        if rc1 != 0 or rc2 != 0:
            raise BuildError("time drivers failed rc=%d/%d %s %s" % (rc1, rc2, e1[-300:], e2[-300:]))
        a2 = a2[1:]
        mism = [(c, a, b) for c, a, b in zip(cases, a1, a2) if a != b]
    ctx.cov["evaluations"] += len(cases)
    ctx.cov["distinct_nontrivial"] += len(set(c for c in cases if not c.startswith("time 0 ")))
    # (2) the three properties themselves on BOTH builds (the repository's flags are -Ofast: fast-math)
    fast = {}
    for name, exe in (("ieee", impl_ieee), ("ofast", impl_fast)):
        rc, res, e = run_lines(exe, cases, shards=NPROC)
        if rc != 0:
            raise BuildError("time driver (%s) failed: %s" % (name, e[-300:]))
        fast[name] = res
        for (T, inc, mtg, ply), c, r in zip(states, cases, res):
            v = int(r)
            if v < 0 or 10 * v > 7 * T:
                nviol += 1
                if nviol <= 4:
                    ctx.violation("time allocation out of range on the %s build: T=%d inc=%d movestogo=%d ply=%d -> %d ms (allowed 0..%d)"
                                  % (name, T, inc, mtg, ply, v, 7 * T // 10),
                                  {"build": name, "op": c, "result": v, "cap": 7 * T // 10}, key="c20:range:" + c)
    # monotonicity on pairs (T, T + d), everything else fixed
    pairs = []
    for (T, inc, mtg, ply) in states[: (800 if q else 15000)]:
        d = rng.choice([1, 1, 2, 3, 7, 10, 100, 1000, rng.randrange(1, 100000)])
        T2 = min(TMAX, T + d)
        pairs.append(((T, inc, mtg, ply), (T2, inc, mtg, ply)))
    # dense chains: every millisecond 0..400 (thresholds / reserves hide at small clocks) and a window around random large clocks
    chains = []
    for inc in (0, 1000):
        for mtg in (0, 1, 2, 40):
            for ply in (0, 60, 200):
                chains.append([(T, inc, mtg, ply) for T in range(0, 401)])
    for _ in range(6 if q else 60):
        base = rng.randrange(1000, TMAX - 200)
        inc, mtg, ply = rng.choice([0, 500, INCMAX]), rng.choice([0, 1, 7, 200]), rng.randrange(0, 1001)
        chains.append([(T, inc, mtg, ply) for T in range(base, base + 120)])
    for ch in chains:
        for a, b in zip(ch, ch[1:]):
            pairs.append((a, b))
    pc = []
    for i, (s1, s2) in enumerate(pairs):
        pc.append("time %d %d %d %d %d" % (s1 + (i % 2,)))
        pc.append("time %d %d %d %d %d" % (s2 + (i % 2,)))
    for name, exe in (("ieee", impl_ieee), ("ofast", impl_fast)):
        rc, res, e = run_lines(exe, pc, shards=NPROC)
        for i, (s1, s2) in enumerate(pairs):
            v1, v2 = int(res[2 * i]), int(res[2 * i + 1])
            if v1 > v2:
                nviol += 1
                if nviol <= 4:
                    ctx.violation("time allocation decreases when the clock increases (%s build): %s -> %d but %s -> %d" % (name, s1, v1, s2, v2),
                                  {"build": name, "state1": s1, "state2": s2, "t1": v1, "t2": v2}, key="c20:mono:%s" % (s1,))
    ctx.cov["evaluations"] += 2 * len(pc)
    ctx.cov["distinct_nontrivial"] += len(pairs)
    # correspondence verdict
    if mism and nviol == 0:
        # the model no longer describes the code; the properties were checked directly above on the same inputs:
        # search harder before giving up
        ctx.violation("correspondence 'time' broken: strict-IEEE build and the extracted model differ on %d of %d clock states (first: %s -> engine %s, model %s) "
                      "and no clock state violating non-negativity / the 70%% cap / monotonicity was found on either build"
                      % (len(mism), len(cases), mism[0][0], mism[0][1], mism[0][2]),
                      {"correspondence": "time", "first": mism[0], "count": len(mism)}, no_input=True)
    elif mism:
        pass  # a concrete violating clock state is already reported
    for c, a in list(zip(cases, a1))[:3]:
        ctx.sample({"case": c, "engine_ms": a})
    dist = {}
    for (T, inc, mtg, ply) in states:
        k = "mtg=%s" % ("0" if mtg == 0 else "1" if mtg == 1 else "2-49" if mtg < 50 else "50+")
        dist[k] = dist.get(k, 0) + 1
    ctx.notes["input_distribution"] = dist
    ctx.notes["ofast_equals_ieee_on"] = sum(1 for a, b in zip(fast["ieee"], fast["ofast"]) if a == b)
    ctx.cov["rule"] = ("%d clock states (boundary grid T in {0,1,9,10,11,...,24h}, inc in {0,1,1000,10min}, movestogo in {0,1,2,3,50,200}, ply in {0,1,64,65,129,1000} "
                       "+ random): (1) calculateTime of a strict-IEEE build must EQUAL the extracted Coq model run on native binary64 with the build's own "
                       "importance() values; (2) non-negativity and the 70%% cap on the strict and the -Ofast build; (3) monotonicity on %d pairs (T, T+d) incl. dense chains (every ms in 0..400 for 24 parameter combinations, 120-ms windows around random clocks) on both builds; "
                       "(0) importance(x) in [1/128,1] for all x=0..%d (exhaustive). non-trivial = T > 0; distinct by case text."
                       % (len(cases), len(pairs), NIMP - 1))
    if not ok and nviol == 0 and not mism:
        ctx.violation("Coq obligations for C20 no longer check (%s); no failing clock state found" % ", ".join(failed),
                      {"theorem_files": failed, "coq_output": out[-3000:]}, no_input=True)
    ctx.cov["trusted_base"] += ["Coq 8.16.1 kernel; Flocq 4.1 (binary64 as round radix2 (FLT_exp -1074 53) ZnearestE)",
                                "axioms (standard library, via Reals/Flocq): see print_assumptions",
                                "libm pow/exp are an oracle with the checked hypothesis 1/128 <= importance(x); the compiler's float code generation under -Ofast "
                                "is trusted to keep each operation a monotone sign-preserving rounding (properties re-checked directly on that build)",
                                "extraction (ExtrOcamlBasic) + ocaml/driver.ml instantiating the model with native floats; harness/ops_time.h"]
    ctx.assumptions += ["int arithmetic does not overflow for the quantifier's ranges: T + inc*199 <= 86,400,000 + 119,400,000 < 2^31"]
