"""C20  Time allocation never exceeds the clock."""
from corr import *
from vlib import *

LEVEL = "proof"

TMAX = 86_400_000       # 24 h in ms
INCMAX = 600_000        # 10 min
BOUND_T = [0, 1, 2, 3, 7, 9, 10, 11, 13, 14, 15, 19, 20, 99, 100, 101, 999, 1000, 1001, 1429, 59_999, 60_000, 3_599_999,
           3_600_000, 86_399_999, TMAX]


def gen_states(rng, n):
    out = []
    for T in BOUND_T:
        for inc in (0, 1, 1000, INCMAX):
            for mtg in (0, 1, 2, 3, 50, 200):
                for ply in (0, 1, 64, 65, 129, 1000):
                    out.append((T, inc, mtg, ply))
    rng.shuffle(out)
    out = out[: max(200, n // 3)]
    while len(out) < n:
        r = rng.random()
        T = rng.choice(BOUND_T) if r < 0.15 else (rng.randrange(0, 2000) if r < 0.4 else rng.randrange(0, TMAX + 1))
        inc = rng.choice([0, 0, 1, 100, 1000, 10_000, INCMAX, rng.randrange(0, INCMAX + 1)])
        mtg = rng.choice([0, 0, 1, 2, 3, 5, 10, 20, 40, 49, 50, 51, 100, 199, 200, rng.randrange(0, 201)])
        ply = rng.choice([0, 1, 2, 10, 30, 60, 64, 65, 66, 100, 200, 500, 999, 1000, rng.randrange(0, 1001)])
        out.append((T, inc, mtg, ply))
    return out


def run(ctx):
    ok, failed, out = ctx.prove("Props/Properties_C20")
    model = model_driver()
    q = ctx.tier == "quick"
    rng = ctx.rng
    nviol = 0
    # (0) hypothesis of the theorems on the libm oracle, checked EXHAUSTIVELY on the implementation:
    #     importance(x) for every x = ply + 2i the quantifier can produce (ply <= 1000, i < 200)
    impl_ieee = harness("impl_driver", flavor="ieee")
    impl_fast = harness("impl_driver", flavor="ofast")
    NIMP = 1000 + 2 * 200 + 2
    tables = {}
    for name, exe in (("ieee", impl_ieee), ("ofast", impl_fast)):
        rc, o, e = run_lines(exe, ["imptable %d" % NIMP])
        if rc != 0 or not o:
            raise BuildError("imptable failed on %s: %s" % (name, e[-500:]))
        if o[0].strip() == "UNAVAILABLE":
            tables[name] = None
            continue
        vals = [float.fromhex(x) for x in o[0].split()]
        tables[name] = o[0]
        bad = [(x, v) for x, v in enumerate(vals) if not (v == v and 1.0 / 128 <= v <= 1.0)]
        if len(vals) != NIMP or bad:
            nviol += 1
            ctx.violation("importance() leaves [1/128, 1] (hypothesis of C20_nonneg / C20_monotone) on the %s build: %s" % (name, bad[:3]),
                          {"build": name, "bad": bad[:10]}, key="c20:imp:" + name)
    ctx.cov["evaluations"] += 2 * NIMP
    ctx.notes["importance_range_checked"] = "x = 0..%d on both builds, all in [1/128, 1]" % (NIMP - 1)
    # (1) exact correspondence: extracted model with native binary64 and the implementation's own importance values
    #     against a strict-IEEE compile (-O1 -ffp-contract=off) of time_manager.cpp
    states = gen_states(rng, 1500 if q else 30000)
    cases = ["time %d %d %d %d %d" % (T, inc, mtg, ply, i % 2) for i, (T, inc, mtg, ply) in enumerate(states)]
    rc1, a1, e1 = run_lines(impl_ieee, cases, shards=NPROC)
    if tables["ieee"] is None:
        # engine::importance(double) is no longer an external function of time_manager.cpp: the model cannot be fed the
        # build's own table, so the exact correspondence cannot run; the properties are still judged directly below
        rc2, a2 = 0, []
        if rc1 != 0:
            raise BuildError("time driver failed rc=%d %s" % (rc1, e1[-300:]))
        mism = [("engine::importance(double) is not linkable any more", "-", "-")]
    else:
        rc2, a2, e2 = run_lines(model, ["impset " + tables["ieee"]] + cases, shards=1, timeout=1800)
        if rc1 != 0 or rc2 != 0:
            raise BuildError("time drivers failed rc=%d/%d %s %s" % (rc1, rc2, e1[-300:], e2[-300:]))
        a2 = a2[1:]
        mism = [(c, a, b) for c, a, b in zip(cases, a1, a2) if a != b]
    ctx.cov["evaluations"] += len(cases)
    ctx.cov["distinct_nontrivial"] += len(set(c for c in cases if not c.startswith("time 0 ")))
    # (2) the three properties themselves on BOTH builds (the repository's flags are -Ofast: fast-math)
    fast = {}
    for name, exe in (("ieee", impl_ieee), ("ofast", impl_fast)):
        rc, res, e = run_lines(exe, cases, shards=NPROC)
        if rc != 0:
            raise BuildError("time driver (%s) failed: %s" % (name, e[-300:]))
        fast[name] = res
        for (T, inc, mtg, ply), c, r in zip(states, cases, res):
            v = int(r)
            if v < 0 or 10 * v > 7 * T:
                nviol += 1
                if nviol <= 4:
                    ctx.violation("time allocation out of range on the %s build: T=%d inc=%d movestogo=%d ply=%d -> %d ms (allowed 0..%d)"
                                  % (name, T, inc, mtg, ply, v, 7 * T // 10),
                                  {"build": name, "op": c, "result": v, "cap": 7 * T // 10}, key="c20:range:" + c)
    # monotonicity on pairs (T, T + d), everything else fixed
    pairs = []
    for (T, inc, mtg, ply) in states[: (800 if q else 15000)]:
        d = rng.choice([1, 1, 2, 3, 7, 10, 100, 1000, rng.randrange(1, 100000)])
        T2 = min(TMAX, T + d)
        pairs.append(((T, inc, mtg, ply), (T2, inc, mtg, ply)))
    # dense chains: every millisecond 0..400 (thresholds / reserves hide at small clocks) and a window around random large clocks
    chains = []
    for inc in (0, 1000):
        for mtg in (0, 1, 2, 40):
            for ply in (0, 60, 200):
                chains.append([(T, inc, mtg, ply) for T in range(0, 401)])
    for _ in range(6 if q else 60):
        base = rng.randrange(1000, TMAX - 200)
        inc, mtg, ply = rng.choice([0, 500, INCMAX]), rng.choice([0, 1, 7, 200]), rng.randrange(0, 1001)
        chains.append([(T, inc, mtg, ply) for T in range(base, base + 120)])
    for ch in chains:
        for a, b in zip(ch, ch[1:]):
            pairs.append((a, b))
    pc = []
    for i, (s1, s2) in enumerate(pairs):
        pc.append("time %d %d %d %d %d" % (s1 + (i % 2,)))
        pc.append("time %d %d %d %d %d" % (s2 + (i % 2,)))
    for name, exe in (("ieee", impl_ieee), ("ofast", impl_fast)):
        rc, res, e = run_lines(exe, pc, shards=NPROC)
        for i, (s1, s2) in enumerate(pairs):
            v1, v2 = int(res[2 * i]), int(res[2 * i + 1])
            if v1 > v2:
                nviol += 1
                if nviol <= 4:
                    ctx.violation("time allocation decreases when the clock increases (%s build): %s -> %d but %s -> %d" % (name, s1, v1, s2, v2),
                                  {"build": name, "state1": s1, "state2": s2, "t1": v1, "t2": v2}, key="c20:mono:%s" % (s1,))
    ctx.cov["evaluations"] += 2 * len(pc)
    ctx.cov["distinct_nontrivial"] += len(pairs)
    # (4) the glue: what Search actually allots (_search_time after go) for a clocked go - the colour and ply handed to the time
    #     manager, and every later override (single-legal-move roots) - on generated positions incl. roots with exactly one legal move
    import posgen
    from searchlib import run_sessions, parse_go
    drv = harness("search_driver")
    pool = posgen.valid_positions(model, rng, 1200 if q else 12000, extra=posgen.CLASSIC + ["k7/8/8/8/8/8/r7/7K w - - 0 1", "7k/R7/8/8/8/8/8/K7 b - - 0 1"])
    rc, lg, err = run_lines(model, ["legal " + f for f in pool], shards=NPROC)
    nlegal = {f: int((l or "0").split()[0]) for f, l in zip(pool, lg)}
    single = [f for f in pool if nlegal[f] == 1]
    multi = [f for f in pool if nlegal[f] > 1]
    gl = []
    for f in single[: (60 if q else 800)] + multi[: (60 if q else 800)]:
        w = f.split()[1] == "w"
        for _ in range(2):
            T = rng.choice([0, 0, 1, 10, 49, 50, 100, 300, 700, 714, 715, 1000, 5000, 60000, rng.randrange(1, 100000)])
            other = rng.choice([3_600_000, 86_400_000])
            lim = "%s %d %s %d" % ("wtime" if w else "btime", T, "btime" if w else "wtime", other)
            if rng.random() < 0.4:
                lim += " %s %d" % ("winc" if w else "binc", rng.choice([0, 10, 1000]))
            if rng.random() < 0.4:
                lim += " movestogo %d" % rng.choice([1, 2, 40])
            gl.append((f, T, "go %s | | %s nodes 300" % (f, lim), lim))
    gres, gcr = run_sessions(drv, [[g[2]] for g in gl], timeout=600)
    # what calculateTime itself returns for the same limits, colour and ply (same compiler flags as the search driver)
    impl_plain = harness("impl_driver")

    def time_case(f, lim):
        t = lim.split()
        kv = {t[i]: int(t[i + 1]) for i in range(0, len(t), 2)}
        w = f.split()[1] == "w"
        ply = 2 * int(f.split()[5]) - 1 + (0 if w else 1)      # Position::ply_count (RepAbs.r_ply)
        return "time %d %d %d %d %d" % (kv["wtime" if w else "btime"], kv.get("winc" if w else "binc", 0), kv.get("movestogo", 0), ply, 0 if w else 1)
    rc, calc, err = run_lines(impl_plain, [time_case(g[0], g[3]) for g in gl], shards=NPROC)
    nglue = 0
    glue_mism = []
    for (f, T, cmd, lim), r, c in zip(gl, gres, calc):
        g = parse_go(r[0]) if r else None
        if g is not None and "alloc" in g and c is not None and c.lstrip("-").isdigit():
            expect = min(int(c), 500) if nlegal[f] == 1 else int(c)        # Props/Properties_C20.v: final_allotment
            if g["alloc"] != expect:
                glue_mism.append((cmd, g["alloc"], expect))
    for (f, T, cmd, lim), r in zip(gl, gres):
        g = parse_go(r[0]) if r else None
        if g is None or "alloc" not in g:
            continue
        nglue += 1
        a = g["alloc"]
        if a < 0 or 10 * a > 7 * T:
            nviol += 1
            if nviol <= 6:
                ctx.violation("the search allots %d ms to a move with %d ms on the clock (allowed 0..%d): position '%s' (%d legal move%s), %s"
                              % (a, T, 7 * T // 10, f, nlegal[f], "" if nlegal[f] == 1 else "s", cmd.split(" | ")[-1]),
                              {"session": [cmd], "allotted_ms": a, "clock_ms": T, "legal_moves": nlegal[f]}, key="c20:glue:%s:%d" % (f, T))
    ctx.cov["evaluations"] += nglue
    ctx.notes["glue_level_clocked_searches"] = nglue
    ctx.notes["glue_single_legal_move_roots"] = len(single[: (60 if q else 800)])
    ctx.notes["glue_allotment_equals_model"] = len(gl) - len(glue_mism)
    if glue_mism and nviol == 0:
        ctx.violation("correspondence 'glue' broken: Search allots %d ms where final_allotment(single-move root, calculateTime(limits, side to move, ply)) = %d ms "
                      "(%d of %d clocked searches differ; first: %s) and no allotment above 70%% of the clock was found"
                      % (glue_mism[0][1], glue_mism[0][2], len(glue_mism), len(gl), glue_mism[0][0]),
                      {"correspondence": "glue", "first": glue_mism[0], "count": len(glue_mism)}, no_input=True)
    # correspondence verdict
    if mism and nviol == 0:
        # the model no longer describes the code; the properties were checked directly above on the same inputs:
        # search harder before giving up
        ctx.violation("correspondence 'time' broken: strict-IEEE build and the extracted model differ on %d of %d clock states (first: %s -> engine %s, model %s) "
                      "and no clock state violating non-negativity / the 70%% cap / monotonicity was found on either build"
                      % (len(mism), len(cases), mism[0][0], mism[0][1], mism[0][2]),
                      {"correspondence": "time", "first": mism[0], "count": len(mism)}, no_input=True)
    elif mism:
        pass  # a concrete violating clock state is already reported
    for c, a in list(zip(cases, a1))[:3]:
        ctx.sample({"case": c, "engine_ms": a})
    dist = {}
    for (T, inc, mtg, ply) in states:
        k = "mtg=%s" % ("0" if mtg == 0 else "1" if mtg == 1 else "2-49" if mtg < 50 else "50+")
        dist[k] = dist.get(k, 0) + 1
    ctx.notes["input_distribution"] = dist
    ctx.notes["ofast_equals_ieee_on"] = sum(1 for a, b in zip(fast["ieee"], fast["ofast"]) if a == b)
    ctx.cov["rule"] = ("%d clock states (boundary grid T in {0,1,9,10,11,...,24h}, inc in {0,1,1000,10min}, movestogo in {0,1,2,3,50,200}, ply in {0,1,64,65,129,1000} "
                       "+ random): (1) calculateTime of a strict-IEEE build must EQUAL the extracted Coq model run on native binary64 with the build's own "
                       "importance() values; (2) non-negativity and the 70%% cap on the strict and the -Ofast build; (3) monotonicity on %d pairs (T, T+d) incl. dense chains (every ms in 0..400 for 24 parameter combinations, 120-ms windows around random clocks) on both builds; "
                       "(0) importance(x) in [1/128,1] for all x=0..%d (exhaustive); (4) the thinking time Search actually allots (_search_time after go) on clocked searches of generated positions, "
                       "half of them roots with exactly one legal move, the other side's clock set to hours: within 0..70%% of the mover's clock and equal to final_allotment(single, calculateTime). non-trivial = T > 0; distinct by case text."
                       % (len(cases), len(pairs), NIMP - 1))
    if not ok and nviol == 0 and not mism:
        ctx.violation("Coq obligations for C20 no longer check (%s); no failing clock state found" % ", ".join(failed),
                      {"theorem_files": failed, "coq_output": out[-3000:]}, no_input=True)
    ctx.cov["trusted_base"] += ["Coq 8.16.1 kernel; Flocq 4.1 (binary64 as round radix2 (FLT_exp -1074 53) ZnearestE)",
                                "axioms (standard library, via Reals/Flocq): see print_assumptions",
                                "libm pow/exp are an oracle with the checked hypothesis 1/128 <= importance(x); the compiler's float code generation under -Ofast "
                                "is trusted to keep each operation a monotone sign-preserving rounding (properties re-checked directly on that build)",
                                "extraction (ExtrOcamlBasic) + ocaml/driver.ml instantiating the model with native floats; harness/ops_time.h"]
    ctx.assumptions += ["int arithmetic does not overflow for the quantifier's ranges: T + inc*199 <= 86,400,000 + 119,400,000 < 2^31"]
