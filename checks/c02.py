"""C02  Making a move follows the rules of chess."""
import posgen
from corr import *
from vlib import *

LEVEL = "proof"


def run(ctx):
    ok, failed, out = ctx.prove("Props/Properties_C02")
    model = model_driver()
    impl = harness("impl_driver")
    q = ctx.tier == "quick"
    fens = posgen.valid_positions(model, ctx.rng, 1500 if q else 20000, extra=posgen.CLASSIC)
    ng = 120 if q else 2500
    starts = [posgen.START] * (ng // 3) + [ctx.rng.choice(fens) for _ in range(ng - ng // 3)]
    games = posgen.playouts(model, ctx.rng, starts, 120 if q else 240)
    games += posgen.playouts(model, ctx.rng, fens, 3, bias=8)
    # long reversible stretches (clock crossing 99/100) from sparse piece positions
    shuffles = [f for f in fens if f.count("/") == 7 and sum(ch.isalpha() for ch in f.split()[0]) <= 6][: (30 if q else 300)]
    games += posgen.playouts(model, ctx.rng, shuffles, 230, bias=0)
    # every legal move of the 'two special effects in one move' templates (promotion capturing a home-corner rook with live rights, ...)
    combos = posgen.filter_valid(model, posgen.combo_positions(ctx.rng, 60 if q else 600))
    games += posgen.all_moves_games(model, combos)
    ctx.notes['combo_template_positions'] = len(combos)
    # (1) FEN after every move: engine vs rules (make_move printed by the spec)
    n1, v1 = diff_games(ctx, "g_fen", games, "position after the move differs from the rules", impl, model)
    # (2) every private field of Position vs the algorithmic model (lists in order, bitboards, keys, history)
    n2, v2 = diff_games(ctx, "g_rep", games, "Position representation differs from the algorithmic model", impl, model)
    ctx.cov["rule"] = ("%d model-driven games (random legal play biased to castling/en passant/promotions/captures of rooks, plus long "
                       "reversible shuffles crossing clock 99->100) from the start position and %d constructed valid positions; after EVERY ply "
                       "(a) the engine's FEN must equal Fen.print of Rules.make_move, (b) every private field of Position (board, each piece list "
                       "in order, both bitboard families, rights, ep, clock, ply, five key components, history tail, draw predicates) must equal "
                       "the algorithmic Coq model PositionRep.do_move.  distinct = distinct observation strings." % (len(games), len(fens)))
    if not ok and v1 + v2 == 0:
        ctx.violation("Coq obligations for C02 no longer check (%s); no failing move found" % ", ".join(failed),
                      {"theorem_files": failed, "coq_output": out[-3000:]}, no_input=True)
    ctx.cov["trusted_base"] += ["Coq 8.16.1 kernel", "extraction (ExtrOcamlBasic) + ocaml/driver.ml + harness/impl_driver.cpp (reads private fields via #define private public)",
                                "Zobrist tables are overwritten with a fixed function on both sides (the theorems hold for every table)"]
    ctx.assumptions += ["clock < 255 (uint8 wrap is modelled; FIDE-legal games stay below 150)", "game length within the history capacity"]
