"""C09  Search limits are honoured (depth sequence, depth cap, searchmoves, termination)."""
import time as _time
import os
import shutil
import gen
import posgen
from searchlib import *
from ucisession import run_script
from vlib import *

LEVEL = "proof"

INSTANT = [   # positions where very deep searches are instant (bare kings / blocked pawns / single-move roots / rule draws)
    "8/8/8/4k3/8/4K3/8/8 w - - 0 1", "8/8/8/4k3/8/8/8/4K2N b - - 0 1", "k7/p7/P7/8/8/8/8/K7 w - - 0 1",
    "7k/7p/7P/8/8/p7/P7/K7 b - - 0 1", "8/8/8/8/8/1k6/1p6/1K6 b - - 0 1", "k7/8/1K6/8/8/8/8/8 b - - 0 1",
]
MATES = [  # forced mates that are seen before the iteration reaches their length (check extension / quiescence)
    "2r3k1/5ppp/8/8/8/4R3/5PPP/4R1K1 w - - 0 1", "6k1/5ppp/8/8/8/8/5PPP/3RR1K1 w - - 0 1", "r5k1/5ppp/8/8/8/8/5PPP/4R1K1 b - - 0 1",
    "6k1/8/6K1/8/8/8/8/5R2 w - - 0 1", "7k/8/5K2/8/8/8/8/6Q1 w - - 0 1", "4r1k1/5ppp/8/8/8/8/5PPP/2r3K1 w - - 0 1",
    "k7/8/1K6/8/8/8/8/7R w - - 0 1",
]


TERMINATION_CORPUS = [
    # aspiration loop at a root restricted by searchmoves that is not stored in the table (first version of the D28 repair, seeded/C09-g): never returned
    ("3R4/2K3k1/3rQ2b/6r1/8/1q5r/5b2/8 b - - 100 37",
     "depth 4 searchmoves h3h4 d6d4 d6d8 g5g3 b3f3 d6e6 f2h4 h3d3 g7h7 b3a2 b3b2 b3b5 b3c3 g5h5 h3g3 h3c3 d6d3 d6c6 b3b1 h3f3 b3d1 h3h1 g5d5 b3b7 b3d3 f2a7 d6d5 b3b4 d6b6 d6a6 f2c5"),
]


def run(ctx):
    gen.gen(["consts"])
    ok, failed, out = ctx.prove("Props/Properties_C09")
    model = model_driver()
    drv = harness("search_driver")
    q = ctx.tier == "quick"
    rng = ctx.rng
    fens = posgen.valid_positions(model, rng, 200 if q else 2500, extra=posgen.CLASSIC + MATES + INSTANT)
    rc, res, err = run_lines(model, ["legal " + f for f in fens], shards=NPROC)
    legal = {f: (r or "0").split()[1:] for f, r in zip(fens, res)}
    fens = [f for f in fens if legal[f]]
    sessions, meta = [], []
    # depth limits 1..6 on ordinary positions, with earlier searches left in the table
    for _ in range(60 if q else 800):
        lines, info = [], []
        for j in range(rng.randrange(1, 4)):
            f = rng.choice(fens)
            d = rng.choice([1, 1, 2, 2, 3, 3, 4, 5]) if f not in INSTANT else rng.choice([39, 40, 41, 60, 100, 1000])
            lines += ["epoch", "go %s | | depth %d" % (f, d)]
            info += [None, (f, d, None)]
        sessions.append(lines)
        meta.append(info)
    # mates seen early: depth below / at / above the mate length
    for f in MATES:
        if f not in legal or not legal[f]:
            continue
        for d in (1, 2, 3, 4, 6):
            sessions.append(["go %s | | depth %d" % (f, d)])
            meta.append([(f, d, None)])
    # depth limits at and above the internal maximum
    for f in INSTANT:
        if f not in legal or not legal[f]:
            continue
        for d in (38, 39, 40, 41, 60, 100, 1000, 2147483647):
            sessions.append(["go %s | | depth %d" % (f, d)])
            meta.append([(f, d, None)])
    # searchmoves: random subsets incl. singletons; a previous unrestricted search leaves its best move in the table
    for _ in range(70 if q else 900):
        f = rng.choice(fens)
        ms = legal[f]
        k = rng.choice([1, 1, 2, 3, max(1, len(ms) // 2)])
        sub = rng.sample(ms, min(k, len(ms)))
        lines = ["go %s | | depth 3" % f, "go %s | | depth %d searchmoves %s" % (f, rng.choice([1, 2, 3, 4]), " ".join(sub))]
        sessions.append(lines)
        meta.append([(f, 3, None), (f, None, sub)])
    # a depth limit given TOGETHER with other limits (a generous clock, movetime, nodes, movestogo, increments): the depth still binds
    calm = [f for f in fens if sum(ch in "Qq" for ch in f.split()[0]) <= 2 and sum(ch.isalpha() for ch in f.split()[0]) <= 16] or fens   # no quiescence explosions
    for _ in range(50 if q else 600):
        f = rng.choice(calm)
        d = rng.choice([1, 2, 2, 3, 3, 4]) if sum(ch.isalpha() for ch in f.split()[0]) <= 10 else rng.choice([1, 2, 2, 3])
        extra = rng.choice(["wtime 3600000 btime 3600000", "wtime 3600000 btime 3600000 winc 1000 binc 1000", "wtime 3600000 btime 3600000 movestogo %d" % rng.choice([1, 10, 40]),
                            "movetime 3600000", "nodes 100000000", "wtime 1 btime 1", "%s 3600000" % ("wtime" if f.split()[1] == "w" else "btime"),
                            "%s 3600000" % ("btime" if f.split()[1] == "w" else "wtime")])
        lim = rng.choice(["depth %d %s" % (d, extra), "%s depth %d" % (extra, d)])
        sessions.append(["go %s | | %s" % (f, lim)])
        meta.append([(f, d, None)])
    # inputs on which a search once failed to come back (kept as a corpus; each in a session of its own)
    for f, lim in TERMINATION_CORPUS:
        sessions.append(["go %s | | %s" % (f, lim)])
        sub = lim.split("searchmoves ")[1].split() if "searchmoves " in lim else None
        meta.append([(f, int(lim.split()[1]) if lim.startswith("depth ") else None, sub)])
    # finite time / clock limits terminate on their own
    tl = []
    for _ in range(48 if q else 400):
        f = rng.choice(calm)
        w = f.split()[1] == "w"
        lim = rng.choice(["movetime %d" % rng.choice([1, 5, 30, 60]), "%s %d %s 60000" % ("wtime" if w else "btime", rng.choice([1, 10, 100, 300]), "btime" if w else "wtime"),
                          "nodes %d" % rng.choice([1, 1000, 20000]),
                          # a clock below zero (a GUI sends it after the flag fell) or a negative movetime is still a finite limit
                          "%s %d %s 60000" % ("wtime" if w else "btime", rng.choice([-1, -4, -20, -350, -100000]), "btime" if w else "wtime"),
                          "movetime %d" % rng.choice([-1, -5, -1000])])
        sessions.append(["go %s | | %s" % (f, lim)])
        meta.append([(f, None, None)])
        tl.append(lim)
    t0 = _time.time()
    results, crashes = run_sessions(drv, sessions, timeout=900)
    wall = _time.time() - t0
    nviol = 0
    for (si, rc, err) in crashes[:3]:
        nviol += 1
        what = "did not terminate (timeout)" if rc == 124 else "crashed (rc=%d)" % rc
        ctx.violation("search %s during: %s  %s" % (what, sessions[si][-1], err[-300:]), {"session": sessions[si], "rc": rc, "stderr": err}, key="c09:crash:%s" % sessions[si][-1])
    ngo = 0
    drive_cases, drive_exp, drive_meta = [], [], []
    for lines, info, res in zip(sessions, meta, results):
        for ln, inf, r in zip(lines, info, res or []):
            if inf is None:
                continue
            g = parse_go(r)
            if g is None:
                continue
            ngo += 1
            f, d, sub = inf
            depths = [it[0] for it in g["iters"]]
            problems = []
            if depths != list(range(1, len(depths) + 1)):
                problems.append("iterations reported %s are not 1,2,... consecutively" % depths)
            if d is not None and depths and max(depths) > d:
                problems.append("iteration %d reported although the limit is depth %d" % (max(depths), d))
            if d is not None and any(rc_[0] > min(d, 40) for rc_ in g["roots"]):
                problems.append("a root search of depth %d was started although the limit is %d" % (max(rc_[0] for rc_ in g["roots"]), d))
            if g["nbest"] != 1:
                problems.append("%d bestmove lines" % g["nbest"])
            if sub is not None and g["best"] not in sub:
                problems.append("bestmove %s is not in the searchmoves list %s" % (g["best"], " ".join(sub)))
            if sub is None and g["best"] not in legal[f]:
                problems.append("bestmove %s is not legal" % g["best"])
            for p in problems:
                nviol += 1
                if nviol <= 5:
                    ctx.violation("%s: position '%s', %s" % (p, f, ln.split(" | ")[-1]), {"session": lines, "failing_cmd": ln, "result": r}, key="c09:%s:%s" % (p[:30], ln))
            dl, exp = drive_line(g)
            drive_cases.append(dl)
            drive_exp.append(exp)
            drive_meta.append((lines, ln, r, g))
    rc, dres, err = run_lines(model, drive_cases, shards=NPROC)
    nconf = 0
    for dl, exp, (lines, ln, r, g), got in zip(drive_cases, drive_exp, drive_meta, dres):
        if got == exp:
            nconf += 1
        else:
            nviol += 1
            if nviol <= 6:
                ctx.violation("iteration-driver model and engine disagree on a recorded run (correspondence 'drive'): cmd '%s': model [%s] engine [%s]"
                              % (ln, (got or "")[:300], exp[:300]), {"session": lines, "failing_cmd": ln, "model": got, "engine": exp, "raw": r},
                              key="c09:drive:" + ln, no_input=True)
    # ---- the UCI text level: go ... searchmoves <list> through Uci::go_command of the real binary (promotion tokens are 5
    #      characters, castling is written as a king move): the answer must be in the list ----
    exe = engine_binary("plain")
    PROMO = ["4k3/4P3/8/8/8/8/8/4K3 w - - 0 1", "8/8/8/8/8/8/4p3/3RK2k b - - 0 1", "r3k3/1P6/8/8/8/8/8/4K3 w q - 0 1", "4k3/8/8/8/8/8/1p6/R3K3 b Q - 0 1",
             "r3k2r/8/8/8/8/8/8/R3K2R w KQkq - 0 1"]
    uci_cases = []
    for f in PROMO + [rng.choice(fens) for _ in range(6 if q else 60)]:
        rc_, lr, e_ = run_lines(model, ["legal " + f])
        ms = (lr[0] or "0").split()[1:]
        if not ms:
            continue
        under = [m for m in ms if len(m) == 5 and m[4] != "q"]
        lists = [rng.sample(ms, max(1, len(ms) // 3))]
        if under:
            lists += [under[:1], under, [under[-1]] + rng.sample(ms, 1)]
        castles = [m for m in ms if m in ("e1g1", "e1c1", "e8g8", "e8c8")]
        if castles:
            lists.append(castles)
        for l in lists:
            uci_cases.append((f, l))
    import concurrent.futures
    import struct
    # three shapes of the same request: list last / a further limit after the list (the UCI text fixes no order) / a Polyglot book that
    # knows the position and recommends a move OUTSIDE the list (the book is a configuration, searchmoves still binds)
    scratch = os.path.join(BUILD, "c09_books")
    os.makedirs(scratch, exist_ok=True)
    rc_, keys, e_ = run_lines(model, ["pghash " + c[0] for c in uci_cases])
    jobs = []
    for i, ((f, l), k) in enumerate(zip(uci_cases, keys)):
        jobs.append((f, l, "list last", ["position fen " + f, "go depth 2 searchmoves " + " ".join(l)]))
        jobs.append((f, l, "limit after the list", ["position fen " + f, "go searchmoves " + " ".join(l) + " depth 2"]))
        jobs.append((f, l, "depth with a clock", ["position fen " + f, "go wtime 3600000 btime 3600000 depth 2 searchmoves " + " ".join(l)]))
        rc2_, lr2, e2_ = run_lines(model, ["legal " + f])
        outside = [m for m in (lr2[0] or "0").split()[1:] if m not in l and len(m) == 4 and m not in ("e1g1", "e1c1", "e8g8", "e8c8")]
        if outside and k and all(ch in "0123456789abcdefABCDEFx" for ch in k.strip()):
            m = outside[0]
            enc = ((ord(m[1]) - 49) * 8 + (ord(m[0]) - 97)) * 64 + (ord(m[3]) - 49) * 8 + (ord(m[2]) - 97)
            path = os.path.join(scratch, "b%d.bin" % i)
            with open(path, "wb") as fh:
                fh.write(struct.pack(">QHHI", int(k.strip(), 16), enc, 100, 0))
            jobs.append((f, l, "book recommends %s" % m, ["setoption name Polyglot Sample value best", "setoption name Polyglot Book value " + path,
                                                           "position fen " + f, "go depth 2 searchmoves " + " ".join(l)]))
    # time / clock / node limits on quiescence-explosive positions (many queens en prise): the limit has to be polled inside the capture
    # search too - a poll only in the main search is reached a handful of times per minute there
    EXPLOSIVE = ["1QqQqQq1/r6Q/Q6q/q6Q/B2q4/q6Q/k6K/1qQ1QqRb w - - 0 1", "5rk1/q1q2ppp/1q1q4/q1q1Q1Q1/1Q1Q1q1q/4Q1Q1/PPP2Q1Q/1KR5 w - - 0 1",
                 "k7/8/1r1q1r1q/b1q1n1q1/1Q1N1Q1B/Q1R1Q1R1/8/7K w - - 0 1", "q3k2q/r1q2q1r/1n1bb1n1/3qq3/3QQ3/1N1BB1N1/R1Q2Q1R/Q3K2Q w - - 0 1",
                 "2qqkqq1/1q1qq1q1/8/3nn3/3NN3/8/1Q1QQ1Q1/2QQKQQ1 w - - 0 1"]
    ejobs = [(f, lim, ["position fen " + f, "go " + lim]) for f in EXPLOSIVE for lim in ("movetime 100", "wtime 1000 btime 1000", "nodes 20000", "wtime 50 btime 50 movestogo 1")]
    with concurrent.futures.ThreadPoolExecutor(max_workers=NPROC) as ex:
        eres = list(ex.map(lambda j: run_script(exe, j[2], go_timeout=30), ejobs))
    for (f, lim, script), r in zip(ejobs, eres):
        ngo += 1
        if not r["bestmoves"]:
            nviol += 1
            if nviol <= 6:
                ctx.violation("UCI: 'go %s' on the capture-explosive position '%s' was not answered within 30 s (a finite limit must end the search on its own)" % (lim, f),
                              {"session": script, "log": r["log"][-6:], "rc": r["rc"]}, key="c09:explosive:%s:%s" % (f, lim))
    ctx.notes["limited_searches_on_capture_explosive_positions"] = len(ejobs)
    with concurrent.futures.ThreadPoolExecutor(max_workers=NPROC) as ex:
        ures = list(ex.map(lambda j: run_script(exe, j[3], go_timeout=60), jobs))
    shutil.rmtree(scratch, ignore_errors=True)
    for (f, l, shape, script), r in zip(jobs, ures):
        ngo += 1
        b = r["bestmoves"][0] if r["bestmoves"] else None
        deps = [int(x.split()[3]) for x in r["log"] if x.startswith("< info depth ") and x.split()[3].isdigit()]
        if deps and max(deps) > 2:
            nviol += 1
            if nviol <= 6:
                ctx.violation("UCI [%s]: '%s' on '%s': iteration %d reported although the limit is depth 2" % (shape, script[-1], f, max(deps)),
                              {"session": script, "log": r["log"][-8:]}, key="c09:ucidepth:%s:%s" % (shape, f))
        if b not in l:
            nviol += 1
            if nviol <= 6:
                what = ("the engine died (rc=%s): %s" % (r["rc"], r["stderr"][-200:].strip())) if b is None else ("answered %s, which is not in the list" % b)
                ctx.violation("UCI [%s]: '%s' on '%s': %s" % (shape, script[-1], f, what),
                              {"session": script, "log": r["log"][-8:], "rc": r["rc"], "stderr": r["stderr"][-1000:]}, key="c09:uci:%s:%s:%s" % (shape, f, " ".join(l)))
    # ---- the go-command parser itself: what Uci::go_command hands to Search (dumped at go entry by the hook build of the real UCI
    #      loop) against the extracted model Engine/GoParse.v, on parameter groups in random ORDER (theorem go_parameter_order_is_irrelevant),
    #      repeated keywords, several searchmoves lists, unknown tokens, missing / non-numeric values ----
    udrv = harness("uci_driver")
    start_moves = "a2a3 a2a4 b2b3 b2b4 c2c3 c2c4 d2d3 d2d4 e2e3 e2e4 f2f3 f2f4 g2g3 g2g4 h2h3 h2h4 b1a3 b1c3 g1f3 g1h3".split()
    PROMO_BASE = "8/4P3/8/8/8/8/k7/4K3 w - - 0 1"
    promo_moves = "e7e8q e7e8r e7e8b e7e8n e1d1 e1d2 e1e2 e1f2 e1f1".split()
    def group(kind, moves=start_moves):
        if kind in ("ponder", "infinite"):
            return [kind]
        if kind == "searchmoves":
            return ["searchmoves"] + rng.sample(moves, rng.choice([1, 1, 2, 3, len(moves)]))
        if kind == "movestogo":
            v = rng.choice([0, 1, 2, 5, 40, 41, 199, 200, -1])       # the time manager's loop is quadratic in movestogo: stay inside C20's stated range 0..200
        elif kind == "nodes":
            v = rng.choice([0, 1, 5000, 2147483648, 9007199254740993, -3])
        else:
            v = rng.choice([0, 1, 2, 5, 40, 41, 1000, 60000, 2147483647, -1, -50])
        return [kind, str(v)]
    KINDS = ["ponder", "infinite", "searchmoves", "wtime", "btime", "winc", "binc", "movestogo", "depth", "nodes", "mate", "movetime"]
    pcmds = []
    pbase = []
    for _ in range(150 if q else 3000):
        ks = rng.sample(KINDS, rng.randrange(1, 8))
        r = rng.random()
        if r < 0.15:
            ks.append(rng.choice(ks))                     # a repeated keyword: the later value wins / a second list is appended
        base = PROMO_BASE if rng.random() < 0.4 else None
        toks = sum([group(k, promo_moves if base else start_moves) for k in ks], [])
        if 0.15 <= r < 0.25:
            toks.insert(rng.randrange(len(toks) + 1), rng.choice(["foo", "Depth", "e2e9", "startpos"]))      # unknown token
        if 0.25 <= r < 0.30:
            toks += [rng.choice(["depth", "wtime", "nodes"])]                                                   # value missing at the end
        if 0.30 <= r < 0.35:
            toks += [rng.choice(["depth", "movetime"]), rng.choice(["abc", "-", "x1"]), "wtime", "777"]          # non-numeric value
        pcmds.append(toks)
        pbase.append(base)
    pres = []
    def dump(tb):
        toks, base = tb
        r = run_script(udrv, ["position fen " + base if base else "position startpos", "go " + " ".join(toks)], env={"VERIF_DUMP_LIMITS": "1"}, go_timeout=30)
        ls = [x for x in r["log"] if "VERIF limits" in x]
        return (ls[-1].split("VERIF limits ", 1)[1].strip() if ls else None, r)
    with concurrent.futures.ThreadPoolExecutor(max_workers=NPROC) as ex:
        pres = list(ex.map(dump, zip(pcmds, pbase)))
    rc_, mres, e_ = run_lines(model, ["goparse " + " ".join(t) for t in pcmds])
    npar = 0
    for toks, (got, r), exp in zip(pcmds, pres, mres):
        npar += 1
        def norm(x, has_mate):
            d = dict(kv.split("=", 1) for kv in (x or "").split())
            if not has_mate:
                d.pop("mate", None)         # Limits::mate is not initialised when the keyword is absent (and never read)
            if (got or "").find("clock=-1") >= 0:
                d.pop("clock", None)        # a tree whose Limits has no clock flag
            return d
        has_mate = exp is not None and "mate=-" not in exp
        if got is None or norm(got, has_mate) != norm(exp, has_mate):
            nviol += 1
            if nviol <= 6:
                ctx.violation("go-command parser differs from the model (correspondence 'goparse'): 'go %s' -> engine [%s] model [%s]" % (" ".join(toks), got, exp),
                              {"session": ["position startpos", "go " + " ".join(toks)], "engine": got, "model": exp, "log": r["log"][-6:], "stderr": r["stderr"][-500:]},
                              key="c09:goparse:" + " ".join(toks), no_input=(got is not None))
    ctx.notes["go_parser_commands_compared"] = npar
    ngo += npar
    ctx.notes["uci_level_searchmoves_sessions"] = len(jobs)
    ctx.cov["evaluations"] = ngo
    ctx.cov["distinct_nontrivial"] = len(set(drive_cases))
    ctx.cov["traces_validated_against_impl"] = nconf
    ctx.notes["wall_s_all_searches"] = round(wall, 1)
    for (lines, ln, r, g) in drive_meta[:3]:
        ctx.sample({"cmd": ln, "iterations": [it[0] for it in g["iters"]], "bestmove": g["best"]})
    ctx.cov["rule"] = ("%d go commands: depth limits 1..5 on constructed positions with earlier searches in the table; depth 38..1000 and INT_MAX on positions "
                       "where deep search is instant; forced mates seen before the iteration reaches their length with depth below/at/above the mate length; random "
                       "searchmoves subsets (singletons included) after an unrestricted search of the same position; finite movetime / clock / node limits (must "
                       "terminate).  Judged: reported iterations are 1,2,..,k consecutively with k <= d, no root call deeper than min(d, MAX_DEPTH), exactly one "
                       "bestmove inside the searchmoves list / the legal moves; every run replayed through the extracted iteration-driver model." % ngo)
    if not ok and nviol == 0:
        ctx.violation("Coq obligations for C09 no longer check (%s); no failing go command found" % ", ".join(failed),
                      {"theorem_files": failed, "coq_output": out[-3000:]}, no_input=True)
    ctx.cov["trusted_base"] += ["Coq 8.16.1 kernel", "extraction + drivers + CHESSPP_VERIF hooks", "how long an iteration takes is not a theorem; the clock is an oracle of the model"]
