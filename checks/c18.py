"""C18  Opening-book keys follow the Polyglot specification."""
import gen
import posgen
from corr import *
from vlib import *

LEVEL = "proof"


def run(ctx):
    gen.gen(["polyglot"])
    ok, failed, out = ctx.prove("Props/Properties_C18")
    model = model_driver()
    impl = harness("impl_driver")
    q = ctx.tier == "quick"
    fens = posgen.valid_positions(model, ctx.rng, 4000 if q else 60000, extra=posgen.CLASSIC,
                                  styles=["ep", "ep", "ep", "castle", "castle", "pins", "mid", "sparse", "dense"])
    games = posgen.playouts(model, ctx.rng, [posgen.START] * (60 if q else 800), 60, bias=5)
    rc, res, err = run_lines(model, ["g_fen %s | %s" % (f, " ".join(ms)) for f, ms in games], shards=NPROC)
    for r in res:
        fens += [x for x in (r or "").split(" ; ") if x and not x.startswith("BAD")]
    fens = sorted(set(fens))
    cases = ["pghash " + f for f in fens]
    rc1, o1, e1, o2 = both(cases, impl, model)
    rc3, o3, e3 = run_lines(model, ["pghash_alg " + f for f in fens], shards=NPROC)
    nviol = 0
    nep = nep_counted = 0
    rights = set()
    for f, a, b, c in zip(fens, o1, o2, o3):
        w = f.split()
        rights.add(w[2])
        if w[3] != "-":
            nep += 1
        if a != b:
            nviol += 1
            if nviol <= 3:
                ctx.violation("Polyglot key differs from the published definition: %s -> engine %s spec %s" % (f, a, b),
                              {"fen": f, "engine": a, "spec": b}, key="c18:" + f)
        elif a != c and nviol < 3:
            nviol += 1
            ctx.violation("PolyglotBook::hash differs from its algorithmic model: %s -> engine %s model %s" % (f, a, c),
                          {"fen": f, "engine": a, "model": c}, key="c18alg:" + f)
    ctx.cov["evaluations"] += len(cases)
    ctx.cov["distinct_nontrivial"] += len(fens)
    ctx.notes["positions_with_ep_square"] = nep
    ctx.notes["castling_right_combinations_seen"] = len(rights)
    ctx.sample({"case": cases[0], "engine": o1[0]})
    ctx.sample({"case": cases[len(cases) // 2], "engine": o1[len(cases) // 2]})
    ctx.cov["rule"] = ("%d distinct positions (constructed: en-passant templates with the capturer left / right / both / none / pinned / on the "
                       "edge files, all castling-right combinations; plus every position of %d games): PolyglotBook::hash must equal the "
                       "extracted spec_hash over the golden Random64 table and the algorithmic model of the hash.  %d positions carry an ep square, "
                       "%d distinct rights strings." % (len(fens), len(games), nep, len(rights)))
    if not ok and nviol == 0:
        ctx.violation("Coq obligations for C18 no longer check (%s): the engine's Polyglot constants are not the published table, but no position with a wrong key was found" % ", ".join(failed),
                      {"theorem_files": failed, "coq_output": out[-3000:]}, no_input=True)
    ctx.cov["trusted_base"] += ["Coq 8.16.1 kernel + vm_compute", "translator dumper.cpp (POLYGLOT_* constants of the working tree)",
                                "Golden/Random64.v: produced once from the pinned commit (no independent copy of the Polyglot source in the sandbox), cross-checked by the nine published vectors",
                                "extraction + drivers"]
