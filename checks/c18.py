"""C18  Opening-book keys follow the Polyglot specification."""
import gen
import posgen
from corr import *
from vlib import *

LEVEL = "proof"


def run(ctx):
    gen.gen(["polyglot"])
    ok, failed, out = ctx.prove("Props/Properties_C18")
    model = model_driver()
    impl = harness("impl_driver")
    q = ctx.tier == "quick"
    fens = posgen.valid_positions(model, ctx.rng, 4000 if q else 60000, extra=posgen.CLASSIC,
                                  styles=["ep", "ep", "ep", "castle", "castle", "pins", "mid", "sparse", "dense"])
    games = posgen.playouts(model, ctx.rng, [posgen.START] * (60 if q else 800), 60, bias=5)
    rc, res, err = run_lines(model, ["g_fen %s | %s" % (f, " ".join(ms)) for f, ms in games], shards=NPROC)
    for r in res:
        fens += [x for x in (r or "").split(" ; ") if x and not x.startswith("BAD")]
    fens = sorted(set(fens))
    cases = ["pghash " + f for f in fens]
    rc1, o1, e1, o2 = both(cases, impl, model)
    rc3, o3, e3 = run_lines(model, ["pghash_alg " + f for f in fens], shards=NPROC)
    nviol = 0
    nep = nep_counted = 0
    rights = set()
    for f, a, b, c in zip(fens, o1, o2, o3):
        w = f.split()
        rights.add(w[2])
        if w[3] != "-":
            nep += 1
        if a != b:
            nviol += 1
            if nviol <= 3:
                ctx.violation("Polyglot key differs from the published definition: %s -> engine %s spec %s" % (f, a, b),
                              {"fen": f, "engine": a, "spec": b}, key="c18:" + f)
        elif a != c and nviol < 3:
            nviol += 1
            ctx.violation("PolyglotBook::hash differs from its algorithmic model: %s -> engine %s model %s" % (f, a, c),
                          {"fen": f, "engine": a, "model": c}, key="c18alg:" + f)
    # consecutive calls in ONE process on positions that share the pawn placement and the side to move but differ in what the key also depends
    # on (en-passant square present / absent, castling rights, piece placement): a value memoised between two probes must not survive
    epf = [f for f in fens if f.split()[3] != "-"][: (300 if q else 5000)]
    hist_cases = []
    for f in epf:
        w = f.split()
        noep = " ".join(w[:3] + ["-"] + w[4:])
        nor = " ".join(w[:2] + ["-", w[3]] + w[4:])
        for seq in ([f, noep, f], [noep, f, noep], [f, nor, noep, f]):
            hist_cases += ["pghash " + x for x in seq]
    hist_cases = [c for c, okv in zip(hist_cases, [True] * len(hist_cases))]
    valid_h = set(posgen.filter_valid(model, sorted(set(c[7:] for c in hist_cases))))
    hist_cases = [c for c in hist_cases if c[7:] in valid_h]
    rch, h1, eh = run_lines(impl, hist_cases, shards=1)                 # one process, this order
    rch2, h2, eh2 = run_lines(model, hist_cases, shards=NPROC)
    for i, (c, a, b) in enumerate(zip(hist_cases, h1, h2)):
        if a != b:
            nviol += 1
            if nviol <= 6:
                ctx.violation("Polyglot key depends on the previous probe: after hashing [%s] the key of '%s' is %s, the published definition gives %s"
                              % (" ; ".join(x[7:] for x in hist_cases[max(0, i - 2):i]), c[7:], a, b),
                              {"sequence": [x[7:] for x in hist_cases[max(0, i - 3): i + 1]], "engine": a, "spec": b}, key="c18:hist:" + c)
    ctx.cov["evaluations"] += len(hist_cases)
    ctx.notes["consecutive_probe_sequences"] = len(hist_cases)
    ctx.cov["evaluations"] += len(cases)
    ctx.cov["distinct_nontrivial"] += len(fens)
    ctx.notes["positions_with_ep_square"] = nep
    ctx.notes["castling_right_combinations_seen"] = len(rights)
    ctx.sample({"case": cases[0], "engine": o1[0]})
    ctx.sample({"case": cases[len(cases) // 2], "engine": o1[len(cases) // 2]})
    ctx.cov["rule"] = ("%d distinct positions (constructed: en-passant templates with the capturer left / right / both / none / pinned / on the "
                       "edge files, all castling-right combinations; plus every position of %d games): PolyglotBook::hash must equal the "
                       "extracted spec_hash over the golden Random64 table and the algorithmic model of the hash.  %d positions carry an ep square, "
                       "%d distinct rights strings." % (len(fens), len(games), nep, len(rights)))
    if not ok and nviol == 0:
        ctx.violation("Coq obligations for C18 no longer check (%s): the engine's Polyglot constants are not the published table, but no position with a wrong key was found" % ", ".join(failed),
                      {"theorem_files": failed, "coq_output": out[-3000:]}, no_input=True)
    ctx.cov["trusted_base"] += ["Coq 8.16.1 kernel + vm_compute", "translator dumper.cpp (POLYGLOT_* constants of the working tree)",
                                "Golden/Random64.v: produced once from the pinned commit (no independent copy of the Polyglot source in the sandbox), cross-checked by the nine published vectors",
                                "extraction + drivers"]
