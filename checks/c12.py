"""C12  King-and-pawn-versus-king knowledge equals the game-theoretic truth."""
import gen
from corr import *
from vlib import *

LEVEL = "proof"


def sqn(s):
    return "abcdefgh"[s % 8] + str(s // 8 + 1)


def fen_of(strong, stm, sk, pawn, wk):
    board = [None] * 64
    board[sk] = "K" if strong == 0 else "k"
    board[wk] = "k" if strong == 0 else "K"
    board[pawn] = "P" if strong == 0 else "p"
    rows = []
    for r in range(7, -1, -1):
        row, e = "", 0
        for f in range(8):
            c = board[r * 8 + f]
            if c is None:
                e += 1
            else:
                if e:
                    row += str(e)
                    e = 0
                row += c
        if e:
            row += str(e)
        rows.append(row)
    return "/".join(rows) + (" w" if stm == 0 else " b") + " - - 0 1"


def run(ctx):
    gen.gen(["bitbase"])
    ok, failed, out = ctx.prove("Props/Properties_C12", timeout=1200)
    impl = harness("impl_driver")
    model = model_driver()
    # B2 (exhaustive): bitbase::normalize + check on every (strong colour, side to move, pawn square,
    # strong king, weak king) against the model of normalize/getIndex/check over the dumped table ...
    raw = ["kpkraw %d %d %d" % (strong, stm, pawn) for strong in (0, 1) for stm in (0, 1) for pawn in range(8, 56)]
    # ... and the evaluator's verdict (PositionScorer::score) on every legal placement
    ev = ["kpkeval %d %d %d" % (strong, stm, pawn) for strong in (0, 1) for stm in (0, 1) for pawn in range(8, 56)]
    rc1, o1, e1, o2 = both(raw + ev, impl, model)
    nviol = 0
    nlegal = 0
    nwon = 0
    for c, a, b in zip(raw + ev, o1, o2):
        if a is None or b is None or len(a) != 4096 or len(b) != 4096:
            ctx.violation("KPK driver produced no/short output for %s (rc=%d) %s" % (c, rc1, e1[-300:]), {"op": c, "engine": a, "model": b}, key="c12:out:" + c)
            nviol += 1
            continue
        op, strong, stm, pawn = c.split()
        strong, stm, pawn = int(strong), int(stm), int(pawn)
        for i in range(4096):
            if op == "kpkeval":
                if b[i] == "-":
                    continue
                nlegal += 1
                nwon += b[i] == "W"
            if a[i] != b[i]:
                nviol += 1
                if nviol <= 3:
                    sk, wk = i // 64, i % 64
                    ctx.violation("%s differs from the model of the dumped bitbase: %s -> engine %s, model %s"
                                  % ("bitbase::check" if op == "kpkraw" else "evaluator verdict", fen_of(strong, stm, sk, pawn, wk), a[i], b[i]),
                                  {"op": c, "fen": fen_of(strong, stm, sk, pawn, wk), "engine": a[i], "model": b[i],
                                   "confirm": "position fen <fen> ; staticeval"}, key="c12:%s:%d" % (c, i))
    # the UCI level (observe_at: `staticeval` on KPK positions): stateful sessions on the engine binary along KPK games - related
    # consecutive position / moves / ucinewgame commands - after every command `staticeval` must show score2str of the evaluator's value
    # for the position the commands describe (that value is what the exhaustive comparison above judges)
    import posgen
    import uciglue
    exe = engine_binary("plain")
    rng = ctx.rng
    q = ctx.tier == "quick"
    kfens = []
    for _ in range(40 if q else 600):
        strong, stm, pawn, sk, wk = rng.randrange(2), rng.randrange(2), rng.randrange(8, 56), rng.randrange(64), rng.randrange(64)
        kfens.append(fen_of(strong, stm, sk, pawn, wk))
    kfens = posgen.filter_valid(model, ["4k3/8/3K4/4P3/8/8/8/8 w - - 0 1", "8/8/8/8/4p3/3k4/8/4K3 b - - 0 1", "8/8/8/8/K7/8/P7/k7 w - - 0 1"] + kfens)
    kgames = [g for g in posgen.playouts(model, rng, kfens, 6) if len(g[1]) >= 2]
    sessions = uciglue.gen_sessions(rng, kgames, 60 if q else 900, special=False)
    sessions = [s_ for s_ in sessions if not any(c.startswith("position startpos") for c, _ in s_)]
    exp = uciglue.expected_fens(model, run_lines, sessions, shards=NPROC)
    got = uciglue.run_sessions(exe, sessions, extras=("staticeval",))
    allexp = sorted(set(e for ex_ in exp for e in ex_ if e))
    rce, ev1, ee = run_lines(impl, ["eval " + e for e in allexp], shards=NPROC)
    vals = [(x or "0").split()[0] for x in ev1]
    rcs, sv, es = run_lines(model, ["s2s " + v for v in vals])
    text_of = dict(zip(allexp, sv))
    nsess = 0
    for sess, ex_, gt in zip(sessions, exp, got):
        for i, ((cmd, st), e, o) in enumerate(zip(sess, ex_, gt)):
            if e is None:
                break
            nsess += 1
            if o["score"] != text_of[e]:
                nviol += 1
                if nviol <= 6:
                    ctx.violation("UCI session: after [%s] staticeval shows 'Score: %s'; the evaluator's value for the position described (%s) prints as '%s'"
                                  % (" ; ".join(c[:120] for c, _ in sess[: i + 1]), o["score"], e, text_of[e]),
                                  {"session": [c for c, _ in sess[: i + 1]] + ["staticeval"], "shown": o["score"], "expected": text_of[e], "position": e},
                                  key="c12:sess:" + " ; ".join(c for c, _ in sess[: i + 1])[:300])
                break
    ctx.notes["uci_session_staticeval_checked"] = nsess
    ctx.cov["evaluations"] = 4096 * len(raw) + nlegal
    ctx.cov["distinct_nontrivial"] = nlegal
    ctx.cov["exhaustive"] = True
    ctx.notes["legal_placements"] = nlegal
    ctx.notes["won_placements"] = nwon
    ctx.cov["rule"] = ("exhaustive: bitbase::normalize+check on all 2 colours x 2 sides x 48 pawn squares x 64 x 64 king squares (%d lookups) "
                       "must equal the Coq model of normalize/getIndex/check over the table dumped from this build; the evaluator's verdict "
                       "(score >= VALUE_KNOWN_WIN from the pawn side's view) on all %d legal placements must equal the table proved equal to the "
                       "game-theoretic value (theorem C12_bitbase). non-trivial = legal placement (spec's kpk_legal)." % (4096 * len(raw), nlegal))
    ctx.sample({"case": raw[5], "engine_first_64": (o1[5] or "")[:64]})
    ctx.sample({"case": ev[100], "engine_first_64": (o1[len(raw) + 100] or "")[:64]})
    if not ok:
        # counterexample search: solve the game from the SPEC and diff against the table the code built
        rc, o, e = run_lines(model, ["kpksolve"], timeout=900)
        line = o[0] if o else ""
        m = re.match(r"legal=(\d+) won=(\d+) wrong=(\d+)\s*(.*)", line)
        found = False
        if m and int(m.group(3)) > 0:
            ctx.notes["wrong_entries"] = int(m.group(3))
            for item in m.group(4).split()[:3]:
                mm = re.match(r"wK=(\w\w),P=(\w\w),bK=(\w\w),(\w):engine=(\w+),truth=(\w+)", item)
                if not mm:
                    continue
                sq = lambda t: "abcdefgh".index(t[0]) + 8 * (int(t[1]) - 1)
                fen = fen_of(0, 0 if mm.group(4) == "w" else 1, sq(mm.group(1)), sq(mm.group(2)), sq(mm.group(3)))
                # confirm on the implementation
                c = "kpkraw 0 %d %d" % (0 if mm.group(4) == "w" else 1, sq(mm.group(2)))
                rc3, o3, e3 = run_lines(impl, [c])
                bit = o3[0][sq(mm.group(1)) * 64 + sq(mm.group(3))] if o3 and len(o3[0]) == 4096 else "?"
                confirmed = (bit == "1") == (mm.group(5) == "true")
                if confirmed:
                    found = True
                    ctx.violation("KPK bitbase is wrong (%d entries differ from the game-theoretic value): %s engine says %s, truth is %s"
                                  % (int(m.group(3)), fen, "win" if mm.group(5) == "true" else "draw", "win" if mm.group(6) == "true" else "draw"),
                                  {"fen": fen, "engine_says_win": mm.group(5), "truth_win": mm.group(6), "wrong_entries": int(m.group(3)),
                                   "confirm": "position fen %s ; staticeval" % fen}, key="c12:truth:" + fen)
        if not found and nviol == 0:
            ctx.violation("Coq obligations for C12 no longer check (%s); the spec solver found no wrong table entry" % ", ".join(failed),
                          {"theorem_files": failed, "coq_output": out[-3000:], "kpksolve": line[:500]}, no_input=True)
    ctx.cov["trusted_base"] += ["Coq 8.16.1 kernel + vm_compute (certificate check over all 393,216 indices, vm_cast_no_check re-checked at Qed)",
                                "primitive Uint63/PArray (kernel primitives, listed by Print Assumptions) hold the dumped table and the untrusted rank certificate",
                                "translator harness/dumper.cpp (BITBASE of this build)", "extraction + drivers",
                                "chess fact assumed by the spec: a safe promotion (new piece cannot be captured) wins K+Q/R v K"]
    ctx.assumptions += ["spec terminal rule: promotion to a piece that cannot be taken at once is a win (K+Q or K+R v K); stated in Engine/KPK.v"]
