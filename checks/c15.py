"""C15  Move classification predicates tell the truth."""
import posgen
from corr import *
from vlib import *

LEVEL = "proof"


def run(ctx):
    ok, failed, out = ctx.prove("Props/Properties_C15")
    model = model_driver()
    impl = harness("impl_driver")
    q = ctx.tier == "quick"
    fens = posgen.valid_positions(model, ctx.rng, 3000 if q else 40000, extra=posgen.CLASSIC,
                                  styles=["promo", "promo", "castle", "castle", "pins", "ep", "sparse", "mid", "queens"])
    games = posgen.playouts(model, ctx.rng, fens, 2, bias=7)
    games += posgen.playouts(model, ctx.rng, [posgen.START] * (60 if q else 1000), 100)
    hist = {"moves": 0, "quiet": 0, "capture": 0, "check": 0, "promo_check": 0, "castle_check": 0}

    def tally(x):
        for w in x.split():
            if ":" not in w:
                continue
            u, fl = w.split(":")
            hist["moves"] += 1
            hist["quiet"] += fl[0] == "1"
            hist["capture"] += fl[1] == "1"
            hist["check"] += fl[2] == "1"
            if fl[2] == "1" and len(u) == 5:
                hist["promo_check"] += 1
            if fl[2] == "1" and u in ("e1g1", "e1c1", "e8g8", "e8c8"):
                hist["castle_check"] += 1
    n1, v1 = diff_games(ctx, "g_classify", games, "move classification (quiet, capture, gives-check) differs from what playing the move does",
                        impl, model, tally=tally)
    n2, v2 = diff_games(ctx, "g_classify_alg", games, "move classification differs from the algorithmic model", impl, model)
    # make / unmake / null-move scripts on ONE Position object, the observer called after EVERY step (caches and lazily updated members
    # must follow the object through every kind of step): compared with the model's value for the position represented
    wroots = [g_[0] for g_ in games][: (150 if q else 2500)]
    wl = ["walkgen %d %d %d %s" % (ctx.rng.randrange(1 << 30), 40 if q else 100, ctx.rng.choice([3, 6]), f_) for f_ in wroots]
    rcw, wscripts, ew = run_lines(model, wl, shards=NPROC)
    wgames = [(f_, (s_ or "").split()) for f_, s_ in zip(wroots, wscripts) if s_]
    nw, vw = diff_games(ctx, "walk_classify", wgames, "move classification after a make / unmake / null-move script on one object differs from what playing the move does", impl, model)
    nw2, vw2 = diff_games(ctx, "walk_classify_do", wgames, "the same, observed only after made moves (not after unmake: the way a search asks)", impl, model)
    vw += vw2
    ctx.notes["walk_script_observations"] = nw + nw2
    v1 += vw
    ctx.notes["move_distribution"] = hist
    ctx.cov["rule"] = ("every legal move of %d constructed valid positions (promotion / castling / pin / en-passant heavy templates) and of the "
                       "positions along %d games: the engine's three answers must equal (a) the rules-level outcome of playing the move "
                       "(piece removed / nothing captured or promoted / opponent king attacked afterwards) and (b) the algorithmic Coq model "
                       "of the predicates.  distinct = distinct per-position observation strings." % (len(fens), len(games)))
    if not ok and v1 + v2 == 0:
        ctx.violation("Coq obligations for C15 no longer check (%s); no failing move found" % ", ".join(failed),
                      {"theorem_files": failed, "coq_output": out[-3000:]}, no_input=True)
    ctx.cov["trusted_base"] += ["Coq 8.16.1 kernel", "extraction + drivers", "slider lookups inside the model are the ray-walk spec (justified by theorem C11)"]
