"""C11  Attack tables are exact for every square and occupancy."""
import gen
from vlib import *

LEVEL = "proof"


def bitsq(f, r):
    return 1 << (r * 8 + f)


def relevant_mask(sq, dirs):
    f0, r0 = sq % 8, sq // 8
    m = 0
    for df, dr in dirs:
        f, r = f0 + df, r0 + dr
        while 0 <= f < 8 and 0 <= r < 8:
            nf, nr = f + df, r + dr
            if 0 <= nf < 8 and 0 <= nr < 8:
                m |= bitsq(f, r)
            f, r = nf, nr
    return m


BD = [(-1, 1), (1, 1), (1, -1), (-1, -1)]
RD = [(0, 1), (1, 0), (0, -1), (-1, 0)]


def subsets(mask):
    s = 0
    while True:
        yield s
        s = (s - mask) & mask
        if s == 0:
            break


def run(ctx):
    gen.gen(["magic"])
    ok, failed, out = ctx.prove("Props/Properties_C11")
    impl = harness("impl_driver")
    model = model_driver()
    cases = []
    # exhaustive: every square x every subset of the relevant blocker mask (107,648 cases)
    for sq in range(64):
        for k, dirs in (("B", BD), ("R", RD)):
            for s in subsets(relevant_mask(sq, dirs)):
                cases.append("slider %s %d %x" % (k, sq, s))
    n_exh = len(cases)
    # arbitrary full 64-bit occupancies
    nrand = 60000 if ctx.tier == "quick" else 3000000
    for i in range(nrand):
        occ = ctx.rng.getrandbits(64)
        r = ctx.rng.random()
        if r < 0.3:
            occ &= ctx.rng.getrandbits(64)
        elif r < 0.4:
            occ |= ctx.rng.getrandbits(64)
        cases.append("slider %s %d %x" % ("BRQ"[i % 3], ctx.rng.randrange(64), occ))
    # edge occupancies: all ones, only edges, empty
    for sq in range(64):
        for occ in (0, (1 << 64) - 1, 0xff818181818181ff, 0x007e7e7e7e7e7e00):
            for k in "BRQ":
                cases.append("slider %s %d %x" % (k, sq, occ))
    for sq in range(64):
        for k in ("N", "K", "PW", "PB"):
            cases.append("leaper %s %d" % (k, sq))
        for r in range(8):
            cases.append("ray %d %d" % (r, sq))
        for b in range(64):
            cases.append("lines %d %d" % (sq, b))
    rc1, o1, e1 = run_lines(impl, cases, shards=NPROC)
    rc2, o2, e2 = run_lines(model, cases, shards=NPROC)
    if rc1 != 0 or rc2 != 0:
        raise BuildError("driver failed rc=%d/%d %s %s" % (rc1, rc2, e1[-500:], e2[-500:]))
    ctx.cov["evaluations"] = len(cases)
    ctx.cov["distinct_nontrivial"] = len(set(c for c in cases if not c.endswith(" 0")))
    ctx.cov["exhaustive"] = True
    ctx.cov["rule"] = ("slider: all %d (square, subset of relevant blocker mask) pairs (exhaustive) + %d random/edge full 64-bit occupancies; "
                       "leaper/ray/lines: all 64 (x8, x64) entries (exhaustive). Implementation result must equal the extracted spec "
                       "(ray walk until first blocker). non-trivial = occupancy not empty; distinct by case text." % (n_exh, len(cases) - n_exh - 64 * 76))
    mism = [(c, a, b) for c, a, b in zip(cases, o1, o2) if a != b]
    for c, a, b in mism[:3]:
        ctx.violation("attack table differs from the ray-walk spec: %s -> engine %s, spec %s" % (c, a, b),
                      {"op": c, "engine": a, "spec": b, "replay_cmd": "echo '%s' | <impl_driver>" % c}, key="c11:" + c)
    for c, a in list(zip(cases, o1))[:2] + list(zip(cases, o1))[n_exh + 5:n_exh + 8]:
        ctx.sample({"case": c, "engine": a})
    if not ok and not mism:
        ctx.violation("Coq obligations for C11 no longer check (%s) but no (square, occupancy) with a wrong attack set was found" % ", ".join(failed),
                      {"theorem_files": failed, "coq_output": out[-3000:]}, no_input=True)
    ctx.cov["trusted_base"] += ["Coq 8.16.1 kernel + vm_compute (sweeps use vm_cast_no_check, re-checked by the kernel at Qed)",
                                "translator harness/dumper.cpp (magics, widths, run-time tables of the working tree)",
                                "extraction (ExtrOcamlBasic only) + ocaml/driver.ml + harness/impl_driver.cpp"]
    ctx.assumptions += ["the engine is built with the harness flags (-O1 -DNDEBUG); table contents are those of move_bitboards::init() in that build"]
