"""C01  Legal move generation is exact."""
import posgen
from corr import *
from vlib import *

LEVEL = "proof"


def special(obs):
    # non-trivial: promotions, castling, or a position with few moves (checks/pins restrict the list)
    return True


def run(ctx):
    ok, failed, out = ctx.prove("Props/Properties_C01")
    model = model_driver()
    impl = harness("impl_driver")
    q = ctx.tier == "quick"
    npos = 4000 if q else 60000
    ngames = 150 if q else 2500
    fens = posgen.valid_positions(model, ctx.rng, npos, extra=posgen.CLASSIC)
    # positions: the list itself plus a short model-driven continuation (lock-step)
    games = posgen.playouts(model, ctx.rng, fens, 2 if q else 3)
    starts = [posgen.START] * (ngames // 2) + [ctx.rng.choice(fens) for _ in range(ngames // 2)]
    games += posgen.playouts(model, ctx.rng, starts, 80 if q else 160)
    pins = posgen.filter_valid(model, posgen.pin_positions(ctx.rng, 6000 if q else 60000))
    games += [(f, []) for f in pins]
    games += posgen.all_moves_games(model, posgen.filter_valid(model, posgen.combo_positions(ctx.rng, 40 if q else 400)))
    ctx.notes['king_ray_template_positions'] = len(pins)
    nobs, nviol = diff_games(ctx, "g_legal", games, "legal move list differs from the rules", impl, model)
    styles = {}
    ctx.cov["rule"] = ("positions: %d constructed placements (templates: pins, en passant next to kings/sliders, castling, promotions, "
                       "many queens; filtered by the extracted valid_position) + positions of tests and known defect replays, each followed "
                       "lock-step along a random legal continuation; %d random legal games (model-driven, biased to captures/checks/castling/"
                       "promotions/double pushes).  Every position: engine generate_moves() as a sorted multiset of UCI strings must equal the "
                       "extracted legal_moves (duplicates change the count).  distinct = distinct observation strings." % (len(fens), len(starts)))
    if not ok and nviol == 0:
        ctx.violation("Coq obligations for C01 no longer check (%s); no position with a wrong move list found" % ", ".join(failed),
                      {"theorem_files": failed, "coq_output": out[-3000:]}, no_input=True)
    ctx.cov["trusted_base"] += ["Coq 8.16.1 kernel", "extraction (ExtrOcamlBasic) + ocaml/driver.ml + harness/impl_driver.cpp",
                                "the generator algorithm (movegen.cpp) is tied to the proved rules by differential runs only (generator_refinement: partial)"]
    ctx.notes["generator_refinement"] = "partial: spec-level theorems + correspondence; no algorithm-level refinement proof yet"
    ctx.assumptions += ["FEN input goes through Position(fen) and Fen.fen_parse (tied by C16)"]
