"""C01  Legal move generation is exact."""
import posgen
from corr import *
from vlib import *

LEVEL = "proof"


def special(obs):
    # non-trivial: promotions, castling, or a position with few moves (checks/pins restrict the list)
    return True


def run(ctx):
    ok, failed, out = ctx.prove("Props/Properties_C01")
    model = model_driver()
    impl = harness("impl_driver")
    q = ctx.tier == "quick"
    npos = 4000 if q else 60000
    ngames = 150 if q else 2500
    fens = posgen.valid_positions(model, ctx.rng, npos, extra=posgen.CLASSIC)
    # positions: the list itself plus a short model-driven continuation (lock-step)
    games = posgen.playouts(model, ctx.rng, fens, 2 if q else 3)
    starts = [posgen.START] * (ngames // 2) + [ctx.rng.choice(fens) for _ in range(ngames // 2)]
    games += posgen.playouts(model, ctx.rng, starts, 80 if q else 160)
    pins = posgen.filter_valid(model, posgen.pin_positions(ctx.rng, 6000 if q else 60000))
    games += [(f, []) for f in pins]
    games += posgen.all_moves_games(model, posgen.filter_valid(model, posgen.combo_positions(ctx.rng, 40 if q else 400)))
    ctx.notes['king_ray_template_positions'] = len(pins)
    nobs, nviol = diff_games(ctx, "g_legal", games, "legal move list differs from the rules", impl, model)
    # make / unmake / null-move scripts on ONE Position object, the observer called after EVERY step (caches and lazily updated members
    # must follow the object through every kind of step): compared with the model's value for the position represented
    wroots = [g_[0] for g_ in games][: (150 if q else 2500)]
    wl = ["walkgen %d %d %d %s" % (ctx.rng.randrange(1 << 30), 40 if q else 100, ctx.rng.choice([3, 6]), f_) for f_ in wroots]
    rcw, wscripts, ew = run_lines(model, wl, shards=NPROC)
    wgames = [(f_, (s_ or "").split()) for f_, s_ in zip(wroots, wscripts) if s_]
    nw, vw = diff_games(ctx, "walk_legal", wgames, "legal move list after a make / unmake / null-move script on one object differs from the rules", impl, model)
    nw2, vw2 = diff_games(ctx, "walk_legal_do", wgames, "the same, observed only after made moves (not after unmake: the way a search asks)", impl, model)
    vw += vw2
    ctx.notes["walk_script_observations"] = nw + nw2
    nviol += vw
    # the same through the real entry point: `position fen F` + `perft 1` on the engine binary (what a user sees), and the search
    # root / SAN consumers are covered by C05 / C17
    import uciglue
    exe = engine_binary("plain")
    sel = ctx.rng.sample(fens, min(len(fens), 250 if q else 4000)) + pins[: (150 if q else 2000)]
    rc, lg, err = run_lines(model, ["legal " + f for f in sel], shards=NPROC)
    obs = uciglue.observe(exe, [("fen", f, []) for f in sel], want=("perft",))
    nu = 0
    for f, l, o in zip(sel, lg, obs):
        exp = sorted((l or "0").split()[1:])
        got = sorted(m for m, c in o["perft"].items() for _ in range(c))
        nu += 1
        if exp and (got != exp or o["nodes"] != len(exp)):
            nviol += 1
            if nviol <= 5:
                ctx.violation("UCI level: 'position fen %s' + 'perft 1' lists [%s] (%s nodes), the rules give [%s]" % (f, " ".join(got), o["nodes"], " ".join(exp)),
                              {"session": ["position fen " + f, "perft 1"], "engine": got, "rules": exp, "raw": o["raw"]}, key="c01:uci:" + f)
    ctx.cov["evaluations"] = ctx.cov.get("evaluations", 0) + nu
    ctx.notes["uci_level_perft1_positions"] = nu
    # stateful sessions: the move list shown by perft 1 after sequences of related position / moves / ucinewgame commands must be the
    # legal moves of the position the commands describe (move text goes through Position::parse_uci)
    gpool = [g for g in games if len(g[1]) >= 4][: (300 if q else 3000)]
    sessions = uciglue.gen_sessions(ctx.rng, gpool, 60 if q else 1200)
    exp = uciglue.expected_fens(model, run_lines, sessions, shards=NPROC)
    got = uciglue.run_sessions(exe, sessions, extras=("perft 1",))
    allexp = sorted(set(e for ex_ in exp for e in ex_ if e))
    rc, lg2, err = run_lines(model, ["legal " + e for e in allexp], shards=NPROC)
    legal_of = {e: sorted((l or "0").split()[1:]) for e, l in zip(allexp, lg2)}
    ns = 0
    for sess, ex_, gt in zip(sessions, exp, got):
        for i, ((cmd, st), e, o) in enumerate(zip(sess, ex_, gt)):
            if e is None:
                break
            ns += 1
            gotm = sorted(m for m, c in o["perft"].items() for _ in range(c))
            if legal_of[e] and gotm != legal_of[e]:
                nviol += 1
                if nviol <= 8:
                    ctx.violation("UCI session: after [%s] perft 1 lists [%s], the legal moves of the position described are [%s]"
                                  % (" ; ".join(c[:140] for c, _ in sess[: i + 1]), " ".join(gotm), " ".join(legal_of[e])),
                                  {"session": [c for c, _ in sess[: i + 1]] + ["perft 1"], "engine": gotm, "rules": legal_of[e], "expected_position": e},
                                  key="c01:sess:" + " ; ".join(c for c, _ in sess[: i + 1])[:300])
                break
    ctx.cov["evaluations"] += ns
    ctx.notes["uci_session_perft_checked"] = ns
    styles = {}
    ctx.cov["rule"] = ("positions: %d constructed placements (templates: pins, en passant next to kings/sliders, castling, promotions, "
                       "many queens; filtered by the extracted valid_position) + positions of tests and known defect replays, each followed "
                       "lock-step along a random legal continuation; %d random legal games (model-driven, biased to captures/checks/castling/"
                       "promotions/double pushes).  Every position: engine generate_moves() as a sorted multiset of UCI strings must equal the "
                       "extracted legal_moves (duplicates change the count); a sample again through the real binary (position fen + perft 1).  distinct = distinct observation strings." % (len(fens), len(starts)))
    if not ok and nviol == 0:
        ctx.violation("Coq obligations for C01 no longer check (%s); no position with a wrong move list found" % ", ".join(failed),
                      {"theorem_files": failed, "coq_output": out[-3000:]}, no_input=True)
    ctx.cov["trusted_base"] += ["Coq 8.16.1 kernel", "extraction (ExtrOcamlBasic) + ocaml/driver.ml + harness/impl_driver.cpp",
                                "the generator algorithm (movegen.cpp) is tied to the proved rules by differential runs only (generator_refinement: partial)"]
    ctx.notes["generator_refinement"] = "partial: spec-level theorems + correspondence; no algorithm-level refinement proof yet"
    ctx.assumptions += ["FEN input goes through Position(fen) and Fen.fen_parse (tied by C16)"]
