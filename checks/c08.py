"""C08  Mates are played and mate announcements are true."""
import gen
import posgen
from searchlib import *
from vlib import *

LEVEL = "proof"

CORPUS_M1 = ["6k1/5ppp/8/8/8/8/5PPP/3RR1K1 w - - 0 1", "7k/8/5K2/8/8/8/8/6Q1 w - - 0 1", "k7/8/1K6/8/8/8/8/7R w - - 0 1",
             "r1bqkb1r/pppp1ppp/2n2n2/4p2Q/2B1P3/8/PPPP1PPP/RNB1K1NR w KQkq - 4 4", "6rk/6pp/7N/8/8/8/8/K7 w - - 0 1",
             "R6R/3Q4/1Q4Q1/4Q3/2Q4Q/Q4Q2/pp1Q4/kBNN1KB1 w - - 0 1", "8/8/8/8/8/1k6/1p6/1K6 b - - 0 1", "4k3/8/4K3/8/8/8/8/R7 w - - 0 1"]
CORPUS_OTHER = ["4k1r1/3B4/8/2n4p/3rPB2/p4PP1/P3N3/2K5 b - - 0 1", "r4b1k/8/2p1RPP1/3p4/1p3K2/P1P2P2/3Q1R1r/2B3N1 w - - 0 1",
                "2r3k1/5ppp/8/8/8/4R3/5PPP/4R1K1 w - - 0 1", "r5k1/5ppp/8/8/8/8/5PPP/4R1K1 b - - 0 1", "6k1/8/6K1/8/8/8/8/5R2 w - - 0 1",
                "8/8/8/8/8/5k2/6q1/7K w - - 0 1", "7k/5Q2/8/6K1/8/8/8/8 b - - 0 1", "k7/2Q5/8/1K6/8/8/8/8 b - - 0 1"]


def material_positions(rng, n):
    """few-piece positions with heavy pieces near the kings: rich in short mates for either side"""
    out = []
    for _ in range(n):
        board = {}
        ks = rng.choice([0, 7, 56, 63, 3, 4, 59, 60, rng.randrange(64)])
        board[ks] = "k"
        near = [s for s in range(64) if s not in board and 2 <= max(abs(s % 8 - ks % 8), abs(s // 8 - ks // 8)) <= 3]
        board[rng.choice(near)] = "K"
        for _ in range(rng.randrange(1, 4)):
            s = rng.randrange(64)
            if s not in board:
                board[s] = rng.choice("QRQRBN")
        for _ in range(rng.randrange(0, 3)):
            s = rng.randrange(64)
            if s not in board:
                pc = rng.choice("qrbnpP")
                if not (pc in "pP" and s // 8 in (0, 7)):
                    board[s] = pc
        f = posgen.board_to_fen(board, rng.choice("wb"), "", None, 0, 1)
        if rng.random() < 0.5:
            f = f.swapcase().replace(" W ", " w ").replace(" B ", " b ")
            # colour-flip the placement only (first field), keep the rest
            pl, rest = f.split(" ", 1)
            f = pl + " " + rest.lower()
        out.append(f)
    return out


def parse_board(fen):
    pl = fen.split()[0]
    board = {}
    r, f = 7, 0
    for ch in pl:
        if ch == "/":
            r -= 1
            f = 0
        elif ch.isdigit():
            f += int(ch)
        else:
            board[r * 8 + f] = ch
            f += 1
    return board


def threat_positions(model, rng, mate1, n):
    """Q: side A to move; a quiet non-pawn move f->t of A reaches P' (B to move) in which A threatens mate in one."""
    sqn = lambda s: "abcdefgh"[s % 8] + str(s // 8 + 1)
    cands = []
    for p in mate1:
        parts = p.split()
        a = parts[1]
        board = parse_board(p)
        own = [s for s, pc in board.items() if (pc.isupper() == (a == "w")) and pc.upper() in "NBRQ"]
        rng.shuffle(own)
        for t in own[:3]:
            pc = board[t]
            empt = [s for s in range(64) if s not in board]
            rng.shuffle(empt)
            for f in empt[:10]:
                b2 = dict(board)
                del b2[t]
                b2[f] = pc
                q = posgen.board_to_fen(b2, a, "", None, 0, 1)
                cands.append((q, sqn(f) + sqn(t), p))
    rng.shuffle(cands)
    cands = cands[: 20 * n]
    valid = set(posgen.filter_valid(model, [c[0] for c in cands]))
    cands = [c for c in cands if c[0] in valid]
    rc, res, err = run_lines(model, ["g_legal %s | %s" % (c[0], c[1]) for c in cands], shards=NPROC)
    out = []
    for (qf, mv, p), r in zip(cands, res):
        lists = (r or "").split(" ; ")
        if len(lists) < 2:
            continue
        l0 = lists[0].split()
        l1 = lists[1].split()
        # the retracted move must be legal in Q, the defender must have a real choice (>= 10 moves)
        if mv in l0[1:] and l1 and int(l1[0]) >= 8:
            out.append(qf)
        if len(out) >= n:
            break
    return out


def cage_positions(rng, n):
    """back-rank cages: the defender's king is boxed in by pawns, a rook move threatens mate on the back rank, the defender has
    many irrelevant moves on the other wing and only a king step (or a rare interposition) parries"""
    out = []
    for _ in range(n):
        board = {62: "k", 53: "p", 55: "p", 46: "p", 45: "P", 47: "P", 38: "P", 14: "P", 15: "P", 6: "K"}
        board[rng.choice([0, 1, 2, 3])] = rng.choice("RRQ")
        for sq_ in (48, 49, 50, 51):
            if rng.random() < 0.7:
                board[sq_] = "p"
        for _k in range(rng.randrange(1, 5)):
            s_ = rng.choice([56, 57, 58, 59, 40, 41, 42, 43, 32, 33, 34, 35, 24, 25, 26])
            if s_ not in board:
                board[s_] = rng.choice("nnbbr")
        for _k in range(rng.randrange(0, 3)):
            s_ = rng.choice([8, 9, 10, 16, 17, 18, 19])
            if s_ not in board:
                board[s_] = rng.choice("PPNB")
        f = posgen.board_to_fen(board, "w", "", None, 0, 1)
        out.append(f)
        out.append(posgen.mirror_fen(f))
    return out


def sparse_endgames(rng, n):
    """K + two or three pieces against a bare king or king + one piece: long QUIET mates (king approach), searched deep"""
    out = []
    while len(out) < n:
        board = {}

        def put(pc):
            while True:
                s_ = rng.randrange(64)
                if s_ not in board:
                    board[s_] = pc
                    return
        put("k")
        put("K")
        for pc in rng.choice(["RB", "RN", "RR", "QR", "QB", "BB", "BN", "RRr", "RBr", "Qr", "RBn", "RRb", "QN", "RBb"]):
            put(pc)
        f = posgen.board_to_fen(board, "w", "", None, 0, 1)
        if rng.random() < 0.5:
            f = posgen.mirror_fen(f)
        out.append(f)
    return out


# positions on which an earlier (seeded) version of the search announced a mate that does not exist; they run first
CORPUS_FOUND = ["8/8/4R3/7B/K7/8/1k6/8 w - - 0 1", "4k3/8/1R6/R5K1/8/8/1r6/8 w - - 0 1"]


def run(ctx):
    gen.gen(["consts"])
    ok, failed, out = ctx.prove("Props/Properties_C08")
    model = model_driver()
    drv = harness("search_driver")
    q = ctx.tier == "quick"
    rng = ctx.rng
    nviol = 0
    # (1) score2str: implementation vs model on the whole mate range, the thresholds and a sample of ordinary values
    vals = list(range(-INF, -INF + 130)) + list(range(INF - 130, INF + 1)) + list(range(-400, 401)) + [rng.randrange(-639950, 639950) for _ in range(1500)]
    rc, a1, e1 = run_lines(drv, ["score2str %d" % v for v in vals], shards=1)
    rc, a2, e2 = run_lines(model, ["s2s %d" % v for v in vals], shards=1)
    for v, a, b in zip(vals, a1, a2):
        if a != b:
            nviol += 1
            if nviol <= 3:
                ctx.violation("score2str(%d) prints '%s', the proved encoding says '%s' (UCI counts moves, not plies)" % (v, a, b),
                              {"value": v, "engine": a, "model": b}, key="c08:s2s:%d" % v)
    ctx.cov["evaluations"] += len(vals)
    # (2) positions: mate-in-one corpus + generated; positions with short forced mates for either side
    cands = posgen.filter_valid(model, CORPUS_M1 + CORPUS_OTHER + material_positions(rng, 700 if q else 8000) +
                                posgen.valid_positions(model, rng, 150 if q else 2000, styles=["sparse", "queens", "mid"]))
    rc, m1, err = run_lines(model, ["mate 1 " + f for f in cands], shards=NPROC)
    rc, lg, err = run_lines(model, ["legal " + f for f in cands], shards=NPROC)
    info = {}
    for f, r, l in zip(cands, m1, lg):
        t = (r or "0 0 ").split(" ")
        info[f] = {"m1": t[0] == "1", "l1": t[1] == "1", "mating": [x for x in (t[2] if len(t) > 2 else "").split(",") if x],
                   "legal": (l or "0").split()[1:]}
    cands = [f for f in cands if info[f]["legal"]]
    mate1 = [f for f in cands if info[f]["m1"]]
    others = [f for f in cands if not info[f]["m1"]]
    sessions, meta = [], []
    for f in mate1[: (150 if q else 2000)]:
        lines, inf = [], []
        for d in (1, 2, 3):
            lines.append("go %s | | depth %d" % (f, d))
            inf.append((f, d, "m1"))
        sessions.append(lines)
        meta.append(inf)
    # mate in one at a root that already COUNTS AS DRAWN by the fifty-move rule (clock >= 100) or by repetition (third occurrence,
    # reached by a reversible shuffle): draws must be claimed, the mate is on the board and must be played and announced
    def with_clock(f, c):
        p_ = f.split()
        return " ".join(p_[:4] + [str(c), p_[5]])
    m1sub = mate1[: (60 if q else 800)]
    for f in m1sub:
        for c in (100, 130):
            g = with_clock(f, c)
            info[g] = info[f]
            sessions.append(["go %s | | depth %d" % (g, d) for d in (1, 3)])
            meta.append([(g, d, "m1") for d in (1, 3)])
    # shuffles a b a' b' that bring the position back (validated by the extracted rules)
    sqs = lambda m: (m[:2], m[2:4])
    shuf_cands = []
    for f in m1sub:
        own = [m for m in info[f]["legal"] if len(m) == 4 and m not in info[f]["mating"]]
        rng.shuffle(own)
        for a in own[:4]:
            shuf_cands.append((f, a))
    rc, r1, err = run_lines(model, ["g_legal %s | %s" % (f, a) for f, a in shuf_cands], shards=NPROC)
    tries = []
    for (f, a), r in zip(shuf_cands, r1):
        ls = (r or "").split(" ; ")
        if len(ls) < 2:
            continue
        opp = [m for m in ls[1].split()[1:] if len(m) == 4]
        rng.shuffle(opp)
        for b in opp[:3]:
            seq = [a, b, a[2:4] + a[:2], b[2:4] + b[:2]]
            tries.append((f, seq))
    rc, r2, err = run_lines(model, ["g_fen %s | %s" % (f, " ".join(seq)) for f, seq in tries], shards=NPROC)
    nrep = 0
    seen_rep = set()
    for (f, seq), r in zip(tries, r2):
        fs = (r or "").split(" ; ")
        if f in seen_rep or len(fs) < 5 or any(x.startswith("BAD") or not x for x in fs[:5]):
            continue
        if fs[4].split()[:4] == f.split()[:4]:
            seen_rep.add(f)
            nrep += 1
            sessions.append(["go %s | %s | depth %d" % (f, " ".join(seq + seq), d) for d in (1, 3)])
            meta.append([(f, d, "m1") for d in (1, 3)])
    ctx.notes["mate_in_one_at_drawn_roots"] = {"clock_100_130": 2 * len(m1sub), "third_occurrence": nrep}
    # the table contents an earlier REAL search of the session can leave: the same position searched with `searchmoves` restricted to
    # non-mating moves, then searched without restriction (no position command in between: same table epoch)
    nrs = 0
    for f in m1sub:
        non = [m for m in info[f]["legal"] if m not in info[f]["mating"]]
        if not non:
            continue
        rng.shuffle(non)
        sub = non[: rng.choice([1, 1, 2, 3])]
        sessions.append(["go %s | | depth %d searchmoves %s" % (f, rng.choice([1, 2, 3]), " ".join(sub)), "go %s | | depth 1" % f, "go %s | | depth 2" % f])
        meta.append([None, (f, 1, "m1"), (f, 2, "m1")])
        nrs += 1
    ctx.notes["mate_in_one_after_restricted_search"] = nrs
    # sessions along short games so that the table carries earlier real searches
    games = posgen.playouts(model, rng, [rng.choice(others) for _ in range(120 if q else 1500)], 4, bias=7)
    gl = ["g_fen %s | %s" % (f, " ".join(ms)) for f, ms in games]
    rc, gres, err = run_lines(model, gl, shards=NPROC)
    rc, glegal, err = run_lines(model, ["g_legal %s | %s" % (f, " ".join(ms)) for f, ms in games], shards=NPROC)
    for (f, ms), r, gl_ in zip(games, gres, glegal):
        fs = (r or "").split(" ; ")
        nl = [x.split()[0] if x.split() else "0" for x in (gl_ or "").split(" ; ")]
        lines, inf = [], []
        for i, fen in enumerate(fs):
            if not fen or fen.startswith("BAD") or i >= len(nl) or nl[i] == "0":
                continue        # game over: the property is about positions with a legal move
            d = rng.choice([1, 2, 3, 4])
            lines += ["epoch", "go %s | %s | depth %d nodes 200000" % (f, " ".join(ms[:i]), d)]
            inf += [None, (fen, d, "game")]
        sessions.append(lines)
        meta.append(inf)
    # unbalanced middlegame positions, many with the side to move in check (check extension + futility pruning at depth 1/2)
    unb = [f for f in posgen.valid_positions(model, rng, 500 if q else 6000, styles=["pins", "mid", "dense", "ep", "promo"])]
    rc, ul, err = run_lines(model, ["legal " + f for f in unb], shards=NPROC)
    for f, l in zip(unb, ul):
        if (l or "0").split()[0] != "0":
            info[f] = {"m1": False, "l1": False, "mating": [], "legal": (l or "0").split()[1:]}
            ds = rng.sample([1, 2, 3, 4], 2)
            if sum(ch in "Qq" for ch in f.split()[0]) > 3:
                continue      # quiescence without pruning explodes on many-queen positions; those belong to C06/C10
            sessions.append(["go %s | | depth %d nodes 200000" % (f, d) for d in ds])
            meta.append([(f, d, "unbalanced") for d in ds])
    # mate THREATS: from a position P where A mates in one, give the move to B (P'), then retract one quiet A move to get
    # Q (A to move) in which that move creates the threat; the defender's node is then a non-first, non-PV child of the root
    threats = threat_positions(model, rng, mate1, 400 if q else 6000)
    ctx.notes["mate_threat_positions"] = len(threats)
    for f in threats:
        info[f] = {"m1": False, "l1": False, "mating": [], "legal": ["?"]}
        ds = [3, rng.choice([4, 5])]
        sessions.append(["go %s | | depth %d nodes 150000" % (f, d) for d in ds])
        meta.append([(f, d, "threat") for d in ds])
    # natural positions in which a quiet move creates a mate-in-one threat that only one or two defender moves parry (defender
    # not in check, >= 13 legal moves).  Candidates are FOUND with the engine's own generator (fast); the judge stays the solver.
    impl = harness("impl_driver")
    pool = posgen.valid_positions(model, rng, 1500 if q else 20000, styles=["mid", "pins", "dense", "sparse"])
    gms = posgen.playouts(model, rng, [rng.choice(pool) for _ in range(300 if q else 4000)], 12, bias=5)
    rc, gf, err = run_lines(model, ["g_fen %s | %s" % (f, " ".join(ms)) for f, ms in gms], shards=NPROC)
    for r in gf:
        pool += [x for x in (r or "").split(" ; ")[1:] if x and not x.startswith("BAD")]
    pool = [f for f in dict.fromkeys(pool) if sum(ch in "Qq" for ch in f.split()[0]) <= 3]
    rc, tr, err = run_lines(impl, ["threatscan " + f for f in pool], shards=NPROC, timeout=900)
    natural = [f for f, r in zip(pool, tr) if (r or "0").isdigit() and int(r) > 0]
    rng.shuffle(natural)
    ctx.notes["threat_candidate_pool"] = len(pool)
    ctx.notes["natural_threat_positions"] = len(natural)
    for f in natural[: (250 if q else 4000)]:
        info[f] = {"m1": False, "l1": False, "mating": [], "legal": ["?"]}
        sessions.append(["go %s | | depth %d nodes 150000" % (f, d) for d in (3, 4)])
        meta.append([(f, d, "threat") for d in (3, 4)])
    cages = posgen.filter_valid(model, cage_positions(rng, 150 if q else 2500))
    ctx.notes["cage_positions"] = len(cages)
    for f in cages:
        info[f] = {"m1": False, "l1": False, "mating": [], "legal": ["?"]}
        sessions.append(["go %s | | depth %d nodes 150000" % (f, d) for d in (3, 4)])
        meta.append([(f, d, "cage") for d in (3, 4)])
    # sparse endgames searched DEEP (null-move / reduction unsoundness needs depth): claims up to mate 4 (5 in thorough) are judged
    deep = posgen.filter_valid(model, CORPUS_FOUND + sparse_endgames(rng, 300 if q else 7000))
    rc, dl, err = run_lines(model, ["legal " + f for f in deep], shards=NPROC)
    deep = [f for f, l in zip(deep, dl) if (l or "0").split()[0] != "0"]
    ctx.notes["sparse_endgames_searched_deep"] = len(deep)
    for f in deep:
        info[f] = {"m1": False, "l1": False, "mating": [], "legal": ["?"]}
        d = 12 if f in CORPUS_FOUND else rng.choice([9, 10, 11, 12])
        sessions.append(["go %s | | depth %d" % (f, d)])
        meta.append([(f, d, "deep")])
    for f in CORPUS_OTHER:
        if f in info and info[f]["legal"]:
            sessions.append(["go %s | | depth %d" % (f, d) for d in (1, 2, 3, 4)])
            meta.append([(f, d, "corpus") for d in (1, 2, 3, 4)])
    results, crashes = run_sessions(drv, sessions, timeout=600)
    for (si, rc_, err_) in crashes[:3]:
        nviol += 1
        ctx.violation("search driver died (rc=%d): %s" % (rc_, err_[-300:]), {"session": sessions[si]}, key="c08:crash:%d" % si)
    claims = []      # (fen, y, session, cmd)
    ngo = 0
    nm1 = 0
    for lines, inf, res in zip(sessions, meta, results):
        for ln, i, r in zip(lines, inf, res or []):
            if i is None:
                continue
            g = parse_go(r)
            if g is None:
                continue
            ngo += 1
            fen, d, kind = i
            if kind == "m1":
                nm1 += 1
                final = g["iters"][-1][1] if g["iters"] else "none"
                if g["best"] not in info[fen]["mating"] or final != "mate 1":
                    nviol += 1
                    if nviol <= 6:
                        ctx.violation("mate in one not played / not announced: position '%s', go depth %d -> bestmove %s, final score '%s' (mating moves: %s)"
                                      % (fen, d, g["best"], final, " ".join(info[fen]["mating"])),
                                      {"session": lines, "failing_cmd": ln, "result": r, "mating_moves": info[fen]["mating"]}, key="c08:m1:%s:%d" % (fen, d))
            if g["iters"]:
                k, y = score_value(g["iters"][-1][1])
                if k == "mate":
                    neg = g["iters"][-1][1].split()[1].startswith("-")
                    claims.append((fen, abs(y), neg, lines, ln, g["iters"][-1][1]))
    # (3) truth of the announcements, by the extracted exhaustive solver
    YMAX = 2 if q else 3
    judged = [(c, "mate %d %s" % (max(c[1], 1), c[0])) for c in claims if c[1] <= YMAX and (c[1] <= 2 or sum(ch.isalpha() for ch in c[0].split()[0]) <= 7)]
    # longer claims on sparse positions (<= 5 men): the memoised solver (same recursion as Rules.forced_mate_within over the extracted
    # legal_moves / make_move / checkmate); quick judges mate 3..4 within a budget, thorough all of mate 3..5
    deepset = set(deep)
    YDEEP = 4 if q else 5
    longc = [c for c in claims if YMAX < c[1] <= YDEEP and c[0] in deepset and sum(ch.isalpha() for ch in c[0].split()[0]) <= 5]
    longc.sort(key=lambda c: (c[0] not in CORPUS_FOUND, c[1]))
    if q:
        longc = longc[:20]
    else:
        # budget: all mate-3 / mate-4 claims up to 400, mate-5 claims (about a minute each) up to 64
        longc = [c for c in longc if c[1] <= 4][:160] + [c for c in longc if c[1] == 5][:16]
    judged += [(c, "matem %d %s" % (c[1], c[0])) for c in longc]
    ctx.notes["long_claims_judged_by_memo_solver"] = len(longc)
    rc, jr, err = run_lines(model, [j[1] for j in judged], shards=NPROC, timeout=3000)
    # the memoised solver is cross-checked against the extracted Rules.forced_mate_within on every short claim
    short = [(c, cmd) for c, cmd in judged if cmd.startswith("mate ")]
    rc, xr, err = run_lines(model, [cmd.replace("mate ", "matem ", 1) for c, cmd in short], shards=NPROC, timeout=1700)
    for (c, cmd), a, b in zip(short, [r for (cc, cm), r in zip(judged, jr) if cm.startswith("mate ")], xr):
        if a is None or b is None:
            continue          # a shard ran out of time: that claim is counted as not judged below
        if (a or "").split()[:2] != (b or "").split()[:2]:
            raise BuildError("memoised mate solver disagrees with Rules.forced_mate_within on '%s': %s vs %s" % (cmd, a, b))
    ntrue = 0
    unjudged = 0
    for (c, cmd), r in zip(judged, jr):
        fen, y, neg, lines, ln, txt = c
        if r is None:
            unjudged += 1      # solver did not finish within the time limit: no verdict, no alarm
            continue
        t = (r or "0 0").split()
        truth = (t[1] == "1") if neg else (t[0] == "1")
        if y == 0:
            truth = False        # the root has legal moves: it is not checkmated, and "mate 0" claims nothing true
        if truth:
            ntrue += 1
        else:
            nviol += 1
            if nviol <= 8:
                ctx.violation("false mate announcement: position '%s', %s -> final 'score %s' but the exhaustive solver finds no forced %s within %d move(s)"
                              % (fen, ln.split(" | ")[-1], txt, "loss" if neg else "mate", y),
                              {"session": lines, "failing_cmd": ln, "claim": txt, "solver": r}, key="c08:claim:%s:%s" % (fen, txt))
    ctx.cov["evaluations"] += ngo
    ctx.cov["distinct_nontrivial"] += len(set(c[0] for c in claims)) + len(set(mate1))
    ctx.notes["mate_in_one_searches"] = nm1
    ctx.notes["mate_claims_seen"] = len(claims)
    ctx.notes["mate_claims_judged"] = len(judged)
    ctx.notes["mate_claims_true"] = ntrue
    ctx.notes["mate_claims_solver_timed_out"] = unjudged
    ctx.notes["claims_by_distance"] = {str(k): sum(1 for c in claims if c[1] == k) for k in sorted(set(c[1] for c in claims))}
    for c in claims[:3]:
        ctx.sample({"position": c[0], "cmd": c[4].split(" | ")[-1], "final_score": c[5]})
    ctx.cov["rule"] = ("score2str on %d values (the whole mate range, the thresholds, ordinary values) against the proved encoding; %d mate-in-one positions "
                       "(corpus + generated, found by the extracted rules) searched at depth 1,2,3: bestmove must mate and the final score must be 'mate 1'; "
                       "%d searches in sessions along model-driven games (table carries earlier real searches) and on the replay positions: every final "
                       "'score mate y' with |y| <= %d judged by the extracted exhaustive solver forced_mate_within / forced_loss_within.  "
                       "non-trivial = position with a mate claim or a mate in one." % (len(vals), len(mate1), ngo, YMAX))
    if not ok and nviol == 0:
        ctx.violation("Coq obligations for C08 no longer check (%s); no false announcement found" % ", ".join(failed),
                      {"theorem_files": failed, "coq_output": out[-3000:]}, no_input=True)
    ctx.cov["trusted_base"] += ["Coq 8.16.1 kernel", "extraction + drivers + hooks", "truth of announcements with |y| above the bound is not judged; "
                                "the soundness of mate claims is decided on the implementation by the independent solver, not by a theorem about the node recursion"]
