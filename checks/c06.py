"""C06  `stop` is never lost and always produces a prompt `bestmove`; stop signalling is race-free; isready is answered."""
import concurrent.futures
import os
import shutil
import time as _time
import gen
import layout
import posgen
from searchlib import *
from ucisession import Uci
from vlib import *

LEVEL = "proof"

HEAVY = ["1QqQqQq1/r6Q/Q6q/q6Q/B2q4/q6Q/k6K/1qQ1QqRb w - - 0 1", "5rk1/q1q2ppp/1q1q4/q1q1Q1Q1/1Q1Q1q1q/4Q1Q1/PPP2Q1Q/1KR5 w - - 0 1",
         "q2qk2q/8/8/8/8/8/8/Q2QK2Q w - - 0 1", "k7/8/1r1q1r1q/b1q1n1q1/1Q1N1Q1B/Q1R1Q1R1/8/7K w - - 0 1"]
PER_FRAME = 3 * 218 + 1          # child calls a frame can still make once the flag is set (theorem C06_stop_never_lost)


def schedule_run(exe, fen, park, env_extra=None, go="go infinite", wait_parked=20, tmo=15):
    env = {"VERIF_PARK": park}
    if env_extra:
        env.update(env_extra)
    u = Uci(exe, env=env)
    out = {"park": park, "fen": fen, "go": go}
    u.send("position fen " + fen)
    u.send(go)
    if park:
        s, t = u.wait_for(lambda x: "VERIF parked" in x or x.startswith("bestmove"), wait_parked)
        out["parked"] = s is not None and "VERIF parked" in s
        if s is not None and s.startswith("bestmove"):
            # the search ended on its own before reaching the park point (e.g. bare kings): nothing to force here
            out["finished_early"] = True
            u.close()
            return out
    else:
        _time.sleep(0.05)
        out["parked"] = True
    u.send("isready")
    r, tr = u.wait_for(lambda x: x == "readyok" or x.startswith("bestmove"), 10)
    out["readyok_while_searching"] = (r == "readyok")
    t0 = _time.time()
    u.send("stop")
    b, tb = None, None
    if r is not None and r.startswith("bestmove"):
        b, tb = r, tr
        r2, _ = u.wait_for(lambda x: x == "readyok", 10)
        out["readyok_while_searching"] = r2 == "readyok"
    else:
        b, tb = u.wait_for(lambda x: x.startswith("bestmove"), tmo)
    out["bestmove"] = b.split()[1] if b and len(b.split()) > 1 else None
    out["latency_s"] = round((tb - t0), 4) if tb else None
    _time.sleep(0.05)
    rc, err = u.close()
    out["nbest"] = u.count(lambda x: x.startswith("bestmove"))
    va = [l for _, l in u.lines if "visits_after_stop" in l]
    if va:
        t = va[-1].split()
        out["visits_after_stop"] = int(t[4])
        out["frames_at_stop"] = int(t[6])
    out["rc"] = rc
    out["stderr"] = err
    out["log"] = u.log[-12:]
    return out


def run(ctx):
    gen.gen(["consts", "layout"])
    facts, missing = layout.gen_layout_v()
    ok, failed, out = ctx.prove("Props/Properties_C06")
    model = model_driver()
    q = ctx.tier == "quick"
    rng = ctx.rng
    nviol = 0
    fens = [posgen.START, posgen.CLASSIC[1], "8/8/8/4k3/8/4K3/8/8 w - - 0 1", "4k3/8/8/8/8/8/4P3/4K3 w - - 0 1"] + HEAVY
    rc, res, err = run_lines(model, ["legal " + f for f in fens])
    legal = {f: (r or "0").split()[1:] for f, r in zip(fens, res)}
    # ---- (1) in-process: stop delivered after exactly k node visits; count the visits that follow ----
    drv = harness("search_driver")
    sessions = []
    ks = list(range(0, 30 if q else 200)) + [rng.randrange(30, 30000) for _ in range(40 if q else 600)]
    for f in fens:
        sessions.append(["go %s | | infinite @stopat=%d" % (f, k) for k in ks])
    results, crashes = run_sessions(drv, sessions, timeout=600)
    for (si, rc_, err_) in crashes[:3]:
        nviol += 1
        ctx.violation("search did not come back after a stop (rc=%d %s): %s" % (rc_, "timeout" if rc_ == 124 else "", sessions[si][0].split(" | ")[0]),
                      {"session": sessions[si][:5], "stderr": err_[-1500:]}, key="c06:drv:%d" % si)
    nstop = 0
    worst = (0, None)
    for lines, res_ in zip(sessions, results):
        for ln, r in zip(lines, res_ or []):
            g = parse_go(r)
            if g is None:
                continue
            nstop += 1
            after = g["visits"] - g["at_stop"] if g["at_stop"] >= 0 else 0
            bound = (g["maxply"] + 2) * PER_FRAME
            if after > worst[0]:
                worst = (after, ln)
            f = ln.split(" | ")[0][3:]
            if g["nbest"] != 1 or g["best"] not in legal[f] or after > bound:
                nviol += 1
                if nviol <= 5:
                    ctx.violation("stop after %d node visits: %d bestmove line(s) '%s', %d node visits after the stop (bound %d for %d open frames): %s"
                                  % (g["at_stop"], g["nbest"], g["best"], after, bound, g["maxply"] + 1, ln),
                                  {"cmd": ln, "result": r, "visits_after_stop": after, "bound": bound}, key="c06:lat:" + ln)
    # ---- (2) real threads, forced schedules: the search thread is parked at a schedule point / node visit until the reader
    #          thread has executed Search::stop(); isready must be answered meanwhile ----
    exe = harness("uci_driver")
    scheds = []
    for f in fens[:4] + HEAVY[:2]:
        for p in (0, 1, 2, 3):
            scheds.append((f, "point:%d" % p, "go infinite"))
        scheds.append((f, "point:4", "go movetime 1"))
        for k in ([0, 1, 2, 5, 17, 100, 1000] if q else list(range(0, 40)) + [100, 1000, 10000]) + [rng.randrange(0, 50000) for _ in range(3 if q else 20)]:
            scheds.append((f, "visit:%d" % k, "go infinite"))
    for f in fens[:3]:
        for _ in range(3 if q else 20):
            scheds.append((f, "", "go infinite"))          # free-running: stop after ~50 ms
    with concurrent.futures.ThreadPoolExecutor(max_workers=NPROC) as ex:
        outs = list(ex.map(lambda s: schedule_run(exe, s[0], s[1], go=s[2]), scheds))
    lat = []
    nearly = 0
    for (f, park, go), o in zip(scheds, outs):
        problems = []
        if o.get("finished_early"):
            nearly += 1
            continue
        if park and not o["parked"]:
            problems.append("search thread never reached the schedule point")
        if o["bestmove"] is None:
            problems.append("no bestmove within 15 s of the stop (stop lost)")
        elif o["bestmove"] not in legal[f]:
            problems.append("bestmove %s is not legal" % o["bestmove"])
        if o["nbest"] != 1:
            problems.append("%d bestmove lines" % o["nbest"])
        if not o["readyok_while_searching"]:
            problems.append("isready was not answered while the search was running")
        if "visits_after_stop" in o and o["visits_after_stop"] > (o["frames_at_stop"] + 3) * PER_FRAME:
            problems.append("%d node visits after the stop with %d open frames" % (o["visits_after_stop"], o["frames_at_stop"] + 1))
        if o["latency_s"] is not None:
            lat.append(o["latency_s"])
            if o["latency_s"] > 5.0:
                problems.append("bestmove %.1f s after the stop" % o["latency_s"])
        for p in problems:
            nviol += 1
            if nviol <= 6:
                ctx.violation("forced schedule [%s, %s, position '%s']: %s" % (park or "free-running", go, f, p),
                              {"schedule": park, "go": go, "fen": f, "outcome": {k: v for k, v in o.items() if k != "stderr"}, "stderr": o["stderr"][-800:]},
                              key="c06:sched:%s:%s:%s" % (park, f, p[:20]))
    # ---- (2b) stop in the sessions where no search is running any more or none ever ran: after a bestmove that came from the BOOK,
    #           after a search that ended by itself, twice in a row, before any go.  The reader must stay responsive (isready) and the
    #           next go infinite + stop must still be answered. ----
    import struct
    from ucisession import Uci
    rbin = engine_binary("plain")
    scratch = os.path.join(BUILD, "c06_books")
    os.makedirs(scratch, exist_ok=True)
    bpath = os.path.join(scratch, "start.bin")
    with open(bpath, "wb") as fh:
        fh.write(struct.pack(">QHHI", 0x463b96181691fc9c, 796, 10, 0))        # start position -> e2e4

    def idle_stop_session(shape):
        u = Uci(rbin)
        probs = []

        def ready(what):
            u.send("isready")
            s_, t_ = u.wait_for(lambda x: x.strip() == "readyok", 10)
            if s_ is None:
                probs.append("isready not answered %s" % what)
            return s_ is not None
        pre = {"book answer": ["setoption name Polyglot Sample value best", "setoption name Polyglot Book value " + bpath, "position startpos", "go depth 3"],
               "search ended by itself": ["position startpos", "go depth 2"],
               "no go yet": ["position startpos"],
               "two stops": ["position startpos", "go depth 2"]}[shape]
        for c in pre:
            u.send(c)
            if c.startswith("go"):
                s_, t_ = u.wait_for(lambda x: x.startswith("bestmove"), 30)
                if s_ is None:
                    probs.append("no bestmove for '%s'" % c)
        u.send("stop")
        if shape == "two stops":
            u.send("stop")
        ok_ = ready("after the stop")
        if ok_:
            u.send("position startpos moves e2e4 e7e5")
            u.send("go infinite")
            time.sleep(0.15)
            ready("while the next search runs")
            u.send("stop")
            s_, t_ = u.wait_for(lambda x: x.startswith("bestmove"), 15)
            if s_ is None:
                probs.append("the next 'go infinite' + 'stop' got no bestmove")
        rc_, err_ = u.close()
        return probs, u.log[-12:]
    # ---- (2c) the search the stop is aimed at was started while the PREVIOUS search was still running or still unwinding:
    #           go infinite / stop + go infinite back to back / stop;   go infinite / go infinite / stop.  The first search must end with
    #           its bestmove (the reader stops and joins it), the second one must be stopped by the stop that follows it. ----
    def overlap_session(shape):
        u = Uci(rbin)
        probs = []
        u.send("position startpos moves e2e4")
        u.send("go infinite")
        time.sleep(rng_delay[shape[1]])
        if shape[0] == "stop+go":
            u.send("stop")
        u.send("position startpos moves e2e4 e7e5")
        u.send("go infinite")
        s_, t_ = u.wait_for(lambda x: x.startswith("bestmove"), 15)
        if s_ is None:
            probs.append("the first search never sent its bestmove")
        time.sleep(rng_delay[shape[2]])
        u.send("isready")
        s_, t_ = u.wait_for(lambda x: x.strip() == "readyok", 10)
        if s_ is None:
            probs.append("isready not answered while the second search runs")
        t0 = time.time()
        u.send("stop")
        s_, t_ = u.wait_for(lambda x: x.startswith("bestmove"), 15)
        if s_ is None:
            probs.append("the stop after the second 'go infinite' got no bestmove within 15 s (stop lost)")
        elif t_ - t0 > 5:
            probs.append("bestmove %.1f s after the stop" % (t_ - t0))
        nb = u.count(lambda x: x.startswith("bestmove"))
        if s_ is not None and nb != 2:
            probs.append("%d bestmove lines for two searches" % nb)
        rc_, err_ = u.close()
        return probs, u.log[-14:]
    rng_delay = [0.0, 0.002, 0.05, 0.2]
    oshapes = [(a, b, c) for a in ("stop+go", "go") for b in range(4) for c in range(4)] * (1 if q else 6)
    with concurrent.futures.ThreadPoolExecutor(max_workers=NPROC) as ex:
        over = list(ex.map(overlap_session, oshapes))
    for shape, (probs, log_) in zip(oshapes, over):
        for p in probs:
            nviol += 1
            if nviol <= 8:
                ctx.violation("go infinite, %s while it runs, then stop [delays %s s / %s s]: %s" % ("'stop' and 'go infinite' back to back" if shape[0] == "stop+go" else "a second 'go infinite'",
                                                                                             rng_delay[shape[1]], rng_delay[shape[2]], p),
                              {"shape": list(shape), "log": log_}, key="c06:overlap:%s:%s" % (shape[0], p))
    ctx.notes["overlapping_go_sessions"] = len(oshapes)
    shapes = ["book answer", "search ended by itself", "no go yet", "two stops"] * (2 if q else 10)
    with concurrent.futures.ThreadPoolExecutor(max_workers=NPROC) as ex:
        idle = list(ex.map(idle_stop_session, shapes))
    shutil.rmtree(scratch, ignore_errors=True)
    for shape, (probs, log_) in zip(shapes, idle):
        for p in probs:
            nviol += 1
            if nviol <= 8:
                ctx.violation("stop with no search running [%s]: %s" % (shape, p), {"shape": shape, "log": log_}, key="c06:idle:%s:%s" % (shape, p))
    ctx.notes["idle_stop_sessions"] = len(shapes)
    # ---- (3) ThreadSanitizer build of the same harness: no report may involve the stop flag ----
    texe = harness("uci_driver", flavor="tsan")
    tsched = [(fens[0], "point:0", "go infinite"), (fens[0], "visit:200", "go infinite"), (fens[1], "", "go infinite"), (fens[1], "visit:3000", "go infinite")]
    if not q:
        tsched += [(f, "visit:%d" % rng.randrange(0, 5000), "go infinite") for f in fens[:4] for _ in range(4)]
    with concurrent.futures.ThreadPoolExecutor(max_workers=8) as ex:
        touts = list(ex.map(lambda s: schedule_run(texe, s[0], s[1], env_extra={"TSAN_OPTIONS": "halt_on_error=0:report_signal_unsafe=0"}, go=s[2], wait_parked=60, tmo=60), tsched))
    nrace_other = 0
    for (f, park, go), o in zip(tsched, touts):
        for block in o.get("stderr", "").split("=================="):
            if "data race" in block:
                if "Search::stop" in block or "stop_search" in block:
                    nviol += 1
                    ctx.violation("ThreadSanitizer reports a data race on the stop signalling [%s, %s]" % (park, f),
                                  {"schedule": park, "fen": f, "tsan": block[:3000]}, key="c06:tsan:" + park)
                    break
                nrace_other += 1
        if o.get("bestmove") is None and not o.get("finished_early"):
            nviol += 1
            ctx.violation("TSan build: no bestmove after stop [%s]" % park, {"schedule": park, "outcome": {k: v for k, v in o.items() if k != "stderr"}}, key="c06:tsan-nobest:" + park)
    ctx.cov["evaluations"] = nstop + len(scheds) + len(tsched)
    ctx.cov["distinct_nontrivial"] = len(set(scheds)) + len(set(ks)) * len(fens)
    ctx.cov["traces_validated_against_impl"] = len(scheds)
    ctx.notes["max_visits_after_stop_inprocess"] = {"visits": worst[0], "cmd": worst[1]}
    ctx.notes["max_latency_s_threads"] = max(lat) if lat else None
    ctx.notes["schedules_not_forced_search_ended_first"] = nearly
    ctx.notes["tsan_reports_not_about_the_stop_flag"] = nrace_other
    ctx.notes["layout_facts"] = facts
    ctx.sample({"schedule": scheds[0][1], "go": scheds[0][2], "outcome": {k: v for k, v in outs[0].items() if k in ("bestmove", "nbest", "latency_s", "readyok_while_searching", "visits_after_stop")}})
    ctx.sample({"schedule": scheds[6][1], "go": scheds[6][2], "outcome": {k: v for k, v in outs[6].items() if k in ("bestmove", "nbest", "latency_s", "readyok_while_searching", "visits_after_stop")}})
    ctx.cov["rule"] = ("(1) %d in-process searches with the stop delivered after exactly k node visits (k = 0..%d and random up to 30000) on ordinary, bare and "
                       "capture-explosive positions: one legal bestmove, node visits after the stop <= (open frames) x (3 x 218 + 1) (theorem C06_stop_never_lost); "
                       "(2) %d forced schedules on the real two threads (search thread parked at go entry / after init / before the loop / top of the first iteration / "
                       "before printing / at node visit k until the reader thread has executed Search::stop()): isready answered while parked, exactly one legal bestmove "
                       "after the stop, visits after the stop within the bound, wall clock < 5 s (secondary); free-running go infinite + stop; (3) %d sessions on a "
                       "ThreadSanitizer build: no report involving the stop flag.  B1: go() does not touch the flag, no member function of Search writes anything but the literal true to it (clang AST of search.cpp), the flag is std::atomic<bool> (type trait)."
                       % (nstop, max(ks[:30 if q else 200]), len(scheds), len(tsched)))
    if missing:
        nviol += 1
        ctx.violation("translator anchors not found: %s" % ", ".join(missing), {"anchors": missing, "facts": facts}, no_input=True)
    if not ok and nviol == 0:
        # the source no longer satisfies what the theorem needs (flag reset in go() / non-atomic flag): build the schedule from the model's refutation
        ctx.violation("Coq obligations for C06 no longer check (%s): layout facts %s; no lost stop was observed on the forced schedules" % (", ".join(failed), facts),
                      {"theorem_files": failed, "coq_output": out[-3000:], "layout": facts}, no_input=True)
    ctx.cov["trusted_base"] += ["Coq 8.16.1 kernel", "translators: clang AST (does go() mention the flag; every write of the flag in member functions of Search), compiled type trait (is the flag std::atomic<bool>)",
                                "the two-thread model is sequentially consistent with one shared flag; the C++ memory model, the OS scheduler and real-time promptness "
                                "are exhibited only by the forced-schedule runs and ThreadSanitizer (partial by nature)",
                                "ThreadSanitizer reports about the detached thread's teardown after bestmove (not about the stop signalling) are counted, not judged"]
    ctx.assumptions += ["sessions: after go the next command is stop / isready, or (section 2c) a position + go sent while the search still runs; other commands are sent only after bestmove"]
