"""C16  Move text, move encoding and FEN round-trip."""
import posgen
from corr import *
from vlib import *

LEVEL = "proof"


def run(ctx):
    ok, failed, out = ctx.prove("Props/Properties_C16")
    model = model_driver()
    impl = harness("impl_driver")
    q = ctx.tier == "quick"
    # (a) packed encodings: exhaustive on the implementation's accessors
    cases = []
    for f in range(64):
        for t in range(64):
            for p in (0, 2, 3, 4, 5):
                cases.append("enc %d %d %d" % (f, t, p))
    cases += ["encc K", "encc Q"]
    for code in range(0, 1 << 17, 1 if not q else 7):
        cases.append("dec %d" % code)
    for c in range(7):
        for cr in range(16):
            for ep in list(range(16, 24)) + list(range(40, 48)) + [64]:
                for ef in (0, 1):
                    for hm in (0, 1, 49, 99, 100, 127, 128, 254, 255):
                        cases.append("minfo %d %d %d %d %d" % (c, cr, ep, ef, hm))
    rc1, o1, e1, o2 = both(cases, impl, model)
    nviol = 0
    for c, a, b in zip(cases, o1, o2):
        if a != b:
            nviol += 1
            if nviol <= 2:
                ctx.violation("encoding differs from the model: %s -> engine [%s] model [%s]" % (c, a, b),
                              {"op": c, "engine": a, "model": b}, key="c16:" + c)
    # the property itself on the implementation's output (fields decode to what they were built from)
    for c, a in zip(cases, o1):
        w = c.split()
        if w[0] == "enc" and a is not None:
            r = a.split()
            if r[2:] != [w[1], w[2], w[3], "0"]:
                nviol += 1
                ctx.violation("move encoding does not round-trip: %s -> %s" % (c, a), {"op": c, "engine": a}, key="c16rt:" + c)
                break
    ctx.cov["evaluations"] += len(cases)
    ctx.cov["distinct_nontrivial"] += len(set(cases))
    ctx.sample({"case": cases[1234], "engine": o1[1234]})
    # (b) UCI text round trip and (c) FEN round trip on positions and games
    npos = 2500 if q else 40000
    fens = posgen.valid_positions(model, ctx.rng, npos, extra=posgen.CLASSIC)
    games = [(f, []) for f in fens]
    starts = [posgen.START] * (40 if q else 600) + [ctx.rng.choice(fens) for _ in range(40 if q else 600)]
    games += posgen.playouts(model, ctx.rng, starts, 100)
    n1, v1 = diff_games(ctx, "g_uci", games, "UCI move text / parse-back differs", impl, model)
    # property on the implementation's own output: every legal move parses back to itself
    # (the ':1' flags) is part of the compared text, and the model's flags are proved to be 1.
    allfens = []
    c2 = ["g_fen %s | %s" % (f, " ".join(ms)) for f, ms in games]
    rc, res, err = run_lines(model, c2, shards=NPROC)
    for r in res:
        allfens += (r or "").split(" ; ")
    allfens = sorted(set(x for x in allfens if x and not x.startswith("BAD")))
    c3 = ["fen_rt " + f for f in allfens]
    rc1, o1, e1, o2 = both(c3, impl, model)
    for c, a, b in zip(c3, o1, o2):
        if a != b:
            nviol += 1
            if nviol <= 4:
                ctx.violation("FEN round trip differs: %s -> engine [%s] model [%s]" % (c, a, b), {"op": c, "engine": a, "model": b}, key="c16fen:" + c)
        elif a is not None:
            parts = a.split(" | ")
            if len(parts) != 3 or parts[0] != parts[1] or parts[2] != "1" or parts[0] != c[7:]:
                nviol += 1
                ctx.violation("FEN does not round-trip on the engine: %s -> %s" % (c, a), {"op": c, "engine": a}, key="c16fenrt:" + c)
    ctx.cov["evaluations"] += len(c3)
    ctx.cov["distinct_nontrivial"] += len(allfens)
    ctx.sample({"case": c3[0], "engine": o1[0]})
    # (c') the same on the position OBJECT a game reaches (keys are kept incrementally by do_move; a FEN text alone never shows a stale
    #      key): after every move of every game, Position(p.fen()) must be identical to p (operator== both ways, key, pawn key, FEN, side,
    #      rights, en-passant square).  Games: the ones above, every legal move of the castling x en-passant x promotion constructions,
    #      and two further plies from those (castling in answer to a double push, twice in a row)
    combos = posgen.filter_valid(model, posgen.combo_positions(ctx.rng, 60 if q else 600))
    rgames = list(games) + posgen.all_moves_games(model, combos)
    two = posgen.playouts(model, ctx.rng, [ctx.rng.choice(combos) for _ in range(300 if q else 4000)], 4)
    rgames += two
    c4 = ["g_reload %s | %s" % (f, " ".join(ms)) for f, ms in rgames]
    rc4, o4, e4 = run_lines(impl, c4, shards=NPROC)
    nrel = 0
    for c, a in zip(c4, o4):
        flags = (a or "").split(" ; ")
        nrel += len(flags)
        badi = [i for i, x in enumerate(flags) if x != "11111111"]
        if a is None or badi:
            nviol += 1
            if nviol <= 6:
                i = badi[0] if badi else -1
                names = ["reload == p", "p == reload", "key", "pawn key", "FEN text", "side", "rights", "en-passant square"]
                wrong = [n for n, ch in zip(names, flags[i]) if ch != "1"] if badi else ["no answer"]
                ctx.violation("the position reached by a game and its reload from the FEN it prints differ (%s) after %d move(s): %s" % (", ".join(wrong), i, c[9:][:300]),
                              {"op": c, "flags_per_ply": flags, "ply": i}, key="c16reload:" + c)
    ctx.cov["evaluations"] += nrel
    ctx.notes["game_positions_reloaded_and_compared"] = nrel
    # (d) the same through the real entry point: `position fen F [moves ...]` / `position startpos moves ...` on the engine binary,
    #     then `printboard`: the FEN shown must be F / the FEN the rules give after the moves (Uci::position_command, moves_command)
    import uciglue
    exe = engine_binary("plain")
    ucases, uexp = [], []
    for f in ctx.rng.sample(allfens, min(len(allfens), 300 if q else 4000)):
        ucases.append(("fen", f, []))
        uexp.append(f)
    gsel = [g for g in games if g[1]]
    for (f, ms), r in list(zip(games, res)):
        if not ms or len(ucases) > (700 if q else 9000):
            continue
        fs = (r or "").split(" ; ")
        k = ctx.rng.randrange(1, len(ms) + 1)
        if k < len(fs) and fs[k] and not fs[k].startswith("BAD"):
            ucases.append(("startpos", None, ms[:k]) if f == posgen.START else ("fen", f, ms[:k]))
            uexp.append(fs[k])
    obs = uciglue.observe(exe, ucases, want=("fen",))
    nu = 0
    for c, e, o in zip(ucases, uexp, obs):
        nu += 1
        if o["fen"] != e:
            nviol += 1
            if nviol <= 6:
                ctx.violation("UCI level: after '%s' printboard shows [%s], expected [%s]" % (o["cmd"][:300], o["fen"], e),
                              {"session": [o["cmd"], "printboard"], "engine_fen": o["fen"], "expected_fen": e, "raw": o["raw"]}, key="c16:uci:" + o["cmd"][:200])
    ctx.cov["evaluations"] += nu
    ctx.notes["uci_level_position_commands"] = nu
    # (e) stateful sessions: consecutive related commands (same root with longer / shorter / diverging move lists, take-backs over
    #     castling / en passant / promotions, the engine's `moves` command, ucinewgame, FENs differing only in trailing digits); after
    #     EVERY command printboard must show the FEN the rules give for  position R moves L := play(R, L) ;  moves L := play(state, L)
    gpool = [g for g in games if len(g[1]) >= 4][: (400 if q else 4000)]
    sessions = uciglue.gen_sessions(ctx.rng, gpool, 120 if q else 2500)
    exp = uciglue.expected_fens(model, run_lines, sessions, shards=NPROC)
    got = uciglue.run_sessions(exe, sessions)
    ns = 0
    for sess, ex_, gt in zip(sessions, exp, got):
        for i, ((cmd, st), e, o) in enumerate(zip(sess, ex_, gt)):
            if e is None:
                break
            ns += 1
            if o["fen"] != e:
                nviol += 1
                if nviol <= 8:
                    ctx.violation("UCI session: after the commands [%s] printboard shows [%s], the rules give [%s]"
                                  % (" ; ".join(c[:160] for c, _ in sess[: i + 1]), o["fen"], e),
                                  {"session": [c for c, _ in sess[: i + 1]] + ["printboard"], "engine_fen": o["fen"], "expected_fen": e}, key="c16:sess:%s" % " ; ".join(c for c, _ in sess[: i + 1])[:300])
                break
    ctx.cov["evaluations"] += ns
    ctx.notes["uci_session_commands_checked"] = ns
    ctx.cov["rule"] = ("encodings: all 64x64x5 (from,to,promotion) triples, both castling codes, decode of %d 17-bit codes, a grid of MoveInfo "
                       "field tuples (exhaustive / grid, engine accessor output = Coq model output and = the input fields); text: every legal "
                       "move of %d constructed positions and %d model-driven games is printed and parsed back by both sides; FEN: every "
                       "distinct position along those games (%d) is reloaded from the engine's own FEN and every field compared; the same through the real binary (position fen / startpos + moves, then printboard)."
                       % (len([c for c in cases if c.startswith('dec')]), len(fens), len(starts), len(allfens)))
    if not ok and nviol + v1 == 0:
        ctx.violation("Coq obligations for C16 no longer check (%s); no failing input found" % ", ".join(failed),
                      {"theorem_files": failed, "coq_output": out[-3000:]}, no_input=True)
    ctx.cov["trusted_base"] += ["Coq 8.16.1 kernel", "extraction (ExtrOcamlBasic) + ocaml/driver.ml + harness/impl_driver.cpp",
                                "std::istringstream tokenisation and integer formatting are modelled (Fen.tokens / DecimalString)"]
