"""C13  Static evaluation is colour-symmetric."""
import gen
import posgen
from corr import *
from vlib import *

LEVEL = "proof"


def run(ctx):
    gen.gen(["consts", "evalconsts", "bitbase"])
    ok, failed, out = ctx.prove("Props/Properties_C13")
    model = model_driver()
    impl = harness("impl_driver")
    q = ctx.tier == "quick"
    rng = ctx.rng
    mats = posgen.material_positions(rng, 60 if q else 1500)
    mats += [("KBPsKB/template", f) for f in posgen.KBPSKB_TEMPLATES] + [("KBPsKB/template/mirrored", posgen.mirror_fen(f)) for f in posgen.KBPSKB_TEMPLATES]
    mats += [("fortress/template", f) for f in posgen.FORTRESS_TEMPLATES] + [("fortress/template/mirrored", posgen.mirror_fen(f)) for f in posgen.FORTRESS_TEMPLATES]
    general = posgen.valid_positions(model, rng, 1500 if q else 25000, extra=posgen.CLASSIC)
    fens = posgen.filter_valid(model, [f for _, f in mats]) + general
    cls = dict((f, n) for n, f in mats)
    # the property excludes positions that are already drawn by material
    rc, pr, err = run_lines(model, ["g_preds %s |" % f for f in fens], shards=NPROC)
    fens = [f for f, r in zip(fens, pr) if r and len(r) >= 7 and r[6] == "0"]
    mirrors = [posgen.mirror_fen(f) for f in fens]
    # (1) exact correspondence of the endgame module: class chosen and value
    rc1, e1, err1, m1 = both(["eval " + f for f in fens], impl, model=None, shards=NPROC) if False else (0, None, "", None)
    rc, ei, err = run_lines(impl, ["eval " + f for f in fens], shards=NPROC)
    rc, em, err = run_lines(impl, ["eval " + f for f in mirrors], shards=NPROC)
    rc, mo, err = run_lines(model, ["egeval " + f for f in fens], shards=NPROC)
    nviol = 0
    hist = {}
    nend = 0
    for f, a, b in zip(fens, ei, mo):
        if a is None or b is None:
            continue
        sc, idx, eg = a.split()
        hist[idx] = hist.get(idx, 0) + 1
        if idx != "-1":
            nend += 1
        if "%s %s" % (idx, eg) != b:
            nviol += 1
            if nviol <= 4:
                ctx.violation("endgame module differs from its model (class index, value): %s -> engine [%s %s] model [%s]" % (f, idx, eg, b),
                              {"fen": f, "engine": a, "model": b, "class": cls.get(f)}, key="c13:eg:" + f)
    # (2) the property itself on the implementation: eval(p) == eval(mirror p)
    nsym = 0
    for f, mf, a, b in zip(fens, mirrors, ei, em):
        if a is None or b is None:
            nviol += 1
            ctx.violation("evaluation crashed on %s or its mirror" % f, {"fen": f, "mirror": mf}, key="c13:crash:" + f)
            continue
        nsym += 1
        if a.split()[0] != b.split()[0]:
            nviol += 1
            if nviol <= 8:
                ctx.violation("evaluation is not colour-symmetric: '%s' scores %s (endgame class %s) but its mirror '%s' scores %s"
                              % (f, a.split()[0], a.split()[1], mf, b.split()[0]),
                              {"fen": f, "mirror": mf, "score": a, "mirror_score": b, "class": cls.get(f), "confirm": "position fen <fen> ; staticeval"},
                              key="c13:sym:" + f)
    # (3) the same through ONE long-lived evaluator (the engine has exactly one, shared by all searches): a game-like sequence of positions
    #     P1, mirror(P1), P2, mirror(P2), ... in which consecutive positions share the pawn structure and differ in castling rights, king
    #     squares or material; the value of each Pi must equal the value of its mirror IN THAT HISTORY
    def us(f_):
        return f_.replace(" ", "_")
    BASES = ["r3k2r/p1ppqpb1/bn2pnp1/3PN3/1p2P3/2N2Q1p/PPPBBPPP/R3K2R w KQkq - 0 1", "r1bqk2r/ppp2ppp/2np1n2/2b1p3/2B1P3/2NP1N2/PPP2PPP/R1BQK2R b KQkq - 0 6",
             "r3k2r/ppp2ppp/2n5/3pp3/8/2N2N2/PP3PPP/R3K2R w KQkq - 0 1", "r3k2r/1pp2p1p/p5p1/8/8/P5P1/1PP2P1P/R3K2R b KQkq - 0 1",
             "r3k2r/5ppp/8/8/8/8/PPP5/R3K2R w KQkq - 0 1", "r3k2r/ppp5/8/8/8/8/5PPP/R3K2R b KQkq - 0 1"]
    hseqs = []
    for f_ in BASES + [x for x in fens if x.split()[2] not in ("-",)][: (20 if q else 300)]:
        p_ = f_.split()
        avail = p_[2]
        vs = []
        for mask in range(1 << len(avail)):
            r_ = "".join(ch for i, ch in enumerate(avail) if mask >> i & 1) or "-"
            vs.append(" ".join([p_[0], p_[1], r_, "-", p_[4], p_[5]]))
        vs = posgen.filter_valid(model, vs)
        for _ in range(2 if q else 4):
            order = list(vs)
            ctx.rng.shuffle(order)
            seq = []
            for v in order:
                seq += [v, posgen.mirror_fen(v)] if ctx.rng.random() < 0.5 else [posgen.mirror_fen(v), v]
            hseqs.append(seq)
    rch, hv, eh = run_lines(impl, ["evalseq " + " ".join(us(x) for x in sq_) for sq_ in hseqs], shards=NPROC)
    nh = 0
    for sq_, r in zip(hseqs, hv):
        vals = (r or "").split()
        for i in range(0, min(len(vals), len(sq_)) - 1, 2):
            nh += 1
            if vals[i] != vals[i + 1]:
                nviol += 1
                if nviol <= 8:
                    ctx.violation("evaluation is not colour-symmetric inside one evaluator's history: after [%s] '%s' scores %s and its mirror '%s' scores %s"
                                  % (" ; ".join(x.split()[0] + " " + x.split()[2] for x in sq_[:i]), sq_[i], vals[i], sq_[i + 1], vals[i + 1]),
                                  {"sequence": sq_[: i + 2], "values": vals[: i + 2]}, key="c13:hist:" + sq_[i])
                break
    ctx.notes["mirror_pairs_in_one_evaluator_history"] = nh
    ctx.cov["evaluations"] = 2 * nsym + len(fens) + 2 * nh
    ctx.cov["distinct_nontrivial"] = len(set(fens))
    ctx.notes["positions_by_endgame_class_index"] = dict(sorted(hist.items(), key=lambda kv: int(kv[0])))
    ctx.notes["endgame_positions"] = nend
    ctx.notes["general_positions"] = len(fens) - nend
    for f, a in list(zip(fens, ei))[:2] + list(zip(fens, ei))[-2:]:
        ctx.sample({"fen": f, "engine": a, "mirror": posgen.mirror_fen(f)})
    ctx.cov["rule"] = ("%d positions not drawn by material: random placements for every specialised endgame class in both colours (rook-file / same-file / adjacent-file "
                       "pawn templates, KBPsKB blockades, KQKRPs fortresses, wrong-bishop corners) and %d general positions (pins, ep squares, castling rights): "
                       "(1) the endgame class chosen and its value must EQUAL the Coq model of endgame.cpp; (2) PositionScorer::score(p) must equal score(mirror p) "
                       "(ranks flipped, colours, rights, ep, side swapped).  distinct by FEN." % (len(fens), len(fens) - nend))
    if not ok and nviol == 0:
        ctx.violation("Coq obligations for C13 no longer check (%s); no asymmetric position found" % ", ".join(failed),
                      {"theorem_files": failed, "coq_output": out[-3000:]}, no_input=True)
    ctx.cov["trusted_base"] += ["Coq 8.16.1 kernel", "translator (endgame tables, constants, bitbase)", "extraction + drivers",
                                "the general (middle-game) evaluator is not modelled: its symmetry is checked on the implementation only (metamorphic), stated as partial"]
